// yieldify: writes an instrumented copy of the trpc-mcp-go tree.
//
// The copy is what the simulator builds against.  Every rewrite is a text edit
// on the original source (so original line numbers survive) and keeps the Go
// semantics of the construct: only *which* of the legal behaviours happens is
// put under the simulator's control.  See DESIGN.md §2.3.
//
//	yieldify -src /repo -dst /var/tmp/verif-scratch/<hash>/repo -hooks /verif/overlay
package main

import (
	"encoding/json"
	"flag"
	"fmt"
	"go/ast"
	"go/constant"
	"go/token"
	"go/types"
	"io"
	"os"
	"path/filepath"
	"sort"
	"strings"

	"golang.org/x/tools/go/packages"
)

const hookPkgPath = "trpc.group/trpc-go/trpc-mcp-go/zzsimhook"
const hookName = "zzsimhook"

type stats struct {
	Files          int            `json:"files"`
	Rewritten      map[string]int `json:"rewritten"`
	Uninstrumented []string       `json:"uninstrumented_sites"`
}

var st = stats{Rewritten: map[string]int{}}

func main() {
	src := flag.String("src", "/repo", "source tree")
	dst := flag.String("dst", "", "destination tree (created)")
	hooks := flag.String("hooks", "", "directory with zzsimhook/ and zz_verif_hooks.go.txt")
	flag.Parse()
	if *dst == "" || *hooks == "" {
		fmt.Fprintln(os.Stderr, "usage: yieldify -src DIR -dst DIR -hooks DIR")
		os.Exit(2)
	}
	if err := run(*src, *dst, *hooks); err != nil {
		fmt.Fprintln(os.Stderr, "yieldify:", err)
		os.Exit(2)
	}
}

func run(src, dst, hooks string) error {
	if err := os.RemoveAll(dst); err != nil {
		return err
	}
	if err := copyTree(src, dst); err != nil {
		return err
	}
	// hook package + hook file go into the copy before loading, so that type
	// checking of the rewritten copy could be repeated if needed.
	if err := os.MkdirAll(filepath.Join(dst, hookName), 0o755); err != nil {
		return err
	}
	ents, err := os.ReadDir(filepath.Join(hooks, hookName))
	if err != nil {
		return err
	}
	for _, e := range ents {
		if strings.HasSuffix(e.Name(), ".go") {
			if err := copyFile(filepath.Join(hooks, hookName, e.Name()), filepath.Join(dst, hookName, e.Name())); err != nil {
				return err
			}
		}
	}
	if err := copyFile(filepath.Join(hooks, "zz_verif_hooks.go.txt"), filepath.Join(dst, "zz_verif_hooks.go")); err != nil {
		return err
	}

	cfg := &packages.Config{
		Mode: packages.NeedName | packages.NeedFiles | packages.NeedSyntax | packages.NeedTypes |
			packages.NeedTypesInfo | packages.NeedImports | packages.NeedDeps | packages.NeedCompiledGoFiles,
		Dir:   dst,
		Tests: false,
		Env:   append(os.Environ(), "GOFLAGS=-mod=mod", "GOPROXY=off", "GOSUMDB=off"),
	}
	pkgs, err := packages.Load(cfg, ".", "./internal/...")
	if err != nil {
		return err
	}
	for _, p := range pkgs {
		for _, e := range p.Errors {
			return fmt.Errorf("load %s: %v", p.PkgPath, e)
		}
	}
	for _, p := range pkgs {
		if !wanted(p.PkgPath) {
			continue
		}
		for i, f := range p.Syntax {
			name := p.CompiledGoFiles[i]
			if strings.HasSuffix(name, "_test.go") {
				continue
			}
			if err := rewriteFile(p, f, name); err != nil {
				return fmt.Errorf("%s: %v", name, err)
			}
		}
	}
	sort.Strings(st.Uninstrumented)
	b, _ := json.MarshalIndent(st, "", " ")
	return os.WriteFile(filepath.Join(dst, "zz_yieldify_stats.json"), b, 0o644)
}

func wanted(path string) bool {
	const root = "trpc.group/trpc-go/trpc-mcp-go"
	switch path {
	case root, root + "/internal/session", root + "/internal/sseutil", root + "/internal/retry", root + "/internal/context":
		return true
	}
	return false
}

func copyTree(src, dst string) error {
	return filepath.Walk(src, func(p string, info os.FileInfo, err error) error {
		if err != nil {
			return err
		}
		rel, _ := filepath.Rel(src, p)
		if rel == "." {
			return os.MkdirAll(dst, 0o755)
		}
		top := strings.Split(rel, string(filepath.Separator))[0]
		if top == ".git" || top == "examples" || top == "docs" || top == ".github" || top == hookName {
			if info.IsDir() {
				return filepath.SkipDir
			}
			return nil
		}
		if info.IsDir() {
			return os.MkdirAll(filepath.Join(dst, rel), 0o755)
		}
		if !info.Mode().IsRegular() {
			return nil
		}
		if filepath.Base(rel) == "zz_verif_hooks.go" {
			return nil
		}
		return copyFile(p, filepath.Join(dst, rel))
	})
}

func copyFile(a, b string) error {
	in, err := os.Open(a)
	if err != nil {
		return err
	}
	defer in.Close()
	out, err := os.Create(b)
	if err != nil {
		return err
	}
	if _, err := io.Copy(out, in); err != nil {
		out.Close()
		return err
	}
	return out.Close()
}

// ---------------------------------------------------------------------------------------------
// edit machinery: replace [from,to) by a list of segments (literal text or original ranges, which
// are themselves rendered with the edits they contain).

type seg struct {
	lit      string
	from, to int // original range when lit == "" and to > from
}

type edit struct {
	from, to int
	segs     []seg
	seq      int
	prio     int // order among insertions at the same offset (lower first)
}

type rewriter struct {
	pkg   *packages.Package
	fset  *token.FileSet
	file  *ast.File
	tf    *token.File
	src   []byte
	edits []*edit
	seq   int
	n     int // counter for unique temp names
	name  string
	used  bool
}

func (r *rewriter) off(p token.Pos) int { return r.tf.Offset(p) }

func (r *rewriter) add(from, to token.Pos, segs ...seg) {
	r.addP(1, from, to, segs...)
}

// addP adds an edit with an explicit priority among insertions at the same offset.
func (r *rewriter) addP(prio int, from, to token.Pos, segs ...seg) {
	r.seq++
	r.edits = append(r.edits, &edit{from: r.off(from), to: r.off(to), segs: segs, seq: r.seq, prio: prio})
	r.used = true
}

func lit(s string) seg                     { return seg{lit: s} }
func (r *rewriter) rng(a, b token.Pos) seg { return seg{from: r.off(a), to: r.off(b)} }
func (r *rewriter) node(n ast.Node) seg    { return r.rng(n.Pos(), n.End()) }

func (r *rewriter) site(p token.Pos) string {
	pos := r.fset.Position(p)
	return fmt.Sprintf("%s:%d", filepath.Base(pos.Filename), pos.Line)
}

func (r *rewriter) newlines(a, b token.Pos) string {
	return strings.Repeat("\n", strings.Count(string(r.src[r.off(a):r.off(b)]), "\n"))
}

// render the original range [a,b) applying the edits that lie inside it.
func (r *rewriter) render(a, b int, sb *strings.Builder) {
	// top-level edits inside [a,b): sorted by from, then by (to desc for replace-before-insert?), seq
	var in []*edit
	for _, e := range r.edits {
		if e.from >= a && e.to <= b && !(e.from == a && e.to == b && false) {
			in = append(in, e)
		}
	}
	sort.SliceStable(in, func(i, j int) bool {
		if in[i].from != in[j].from {
			return in[i].from < in[j].from
		}
		// insertions (from==to) at the same offset as the start of a replacement come first
		ii, jj := in[i].from == in[i].to, in[j].from == in[j].to
		if ii != jj {
			return ii
		}
		if in[i].to != in[j].to {
			return in[i].to > in[j].to // outer first
		}
		if in[i].prio != in[j].prio {
			return in[i].prio < in[j].prio
		}
		return in[i].seq < in[j].seq
	})
	cur := a
	for _, e := range in {
		if e.from < cur {
			continue // nested in an edit already rendered (its ranges render it)
		}
		sb.Write(r.src[cur:e.from])
		r.renderEdit(e, sb)
		cur = e.to
	}
	sb.Write(r.src[cur:b])
}

func (r *rewriter) renderEdit(e *edit, sb *strings.Builder) {
	// temporarily hide e itself so that ranges equal to its own span do not recurse forever
	for _, s := range e.segs {
		if s.lit != "" || s.to <= s.from {
			sb.WriteString(s.lit)
			continue
		}
		r.renderExcluding(s.from, s.to, e, sb)
	}
}

func (r *rewriter) renderExcluding(a, b int, skip *edit, sb *strings.Builder) {
	saved := r.edits
	var filtered []*edit
	for _, e := range r.edits {
		if e != skip && !(e.from <= skip.from && e.to >= skip.to && (e.from < skip.from || e.to > skip.to)) {
			// keep edits that are not the one being rendered and not its ancestors
			filtered = append(filtered, e)
		}
	}
	r.edits = filtered
	r.render(a, b, sb)
	r.edits = saved
}

// ---------------------------------------------------------------------------------------------

func rewriteFile(p *packages.Package, f *ast.File, name string) error {
	src, err := os.ReadFile(name)
	if err != nil {
		return err
	}
	r := &rewriter{pkg: p, fset: p.Fset, file: f, tf: p.Fset.File(f.Pos()), src: src, name: name}
	st.Files++
	for _, d := range f.Decls {
		fd, ok := d.(*ast.FuncDecl)
		if !ok || fd.Body == nil {
			continue
		}
		r.block(fd.Body)
	}
	// function literals in package-level var initialisers
	for _, d := range f.Decls {
		if gd, ok := d.(*ast.GenDecl); ok {
			ast.Inspect(gd, func(n ast.Node) bool {
				if fl, ok := n.(*ast.FuncLit); ok {
					r.block(fl.Body)
					return false
				}
				return true
			})
		}
	}
	r.atomics(f)
	if !r.used {
		return nil
	}
	// import of the hook package: appended to the package clause line so line numbers stay.
	r.add(f.Name.End(), f.Name.End(), lit("; import "+hookName+" \""+hookPkgPath+"\""))
	var sb strings.Builder
	r.render(0, len(src), &sb)
	return os.WriteFile(name, []byte(sb.String()), 0o644)
}

// atomics makes every sync/atomic operation an interleaving point: a call with one result is
// wrapped as zzsimhook.Yv(site, call) (the yield happens after the operation), which also turns
// a loop that spins on an atomic flag into a sequence of scheduler steps the simulator can see.
func (r *rewriter) atomics(f *ast.File) {
	// calls that are a whole statement of a statement list (a yield can be put in front of them)
	stmtCalls := map[*ast.CallExpr]bool{}
	ast.Inspect(f, func(n ast.Node) bool {
		var list []ast.Stmt
		switch b := n.(type) {
		case *ast.BlockStmt:
			list = b.List
		case *ast.CaseClause:
			list = b.Body
		case *ast.CommClause:
			list = b.Body
		}
		for _, st := range list {
			if es, ok := st.(*ast.ExprStmt); ok {
				if c, ok := es.X.(*ast.CallExpr); ok {
					stmtCalls[c] = true
				}
			}
		}
		return true
	})
	ast.Inspect(f, func(n ast.Node) bool {
		call, ok := n.(*ast.CallExpr)
		if !ok {
			return true
		}
		var fn *types.Func
		switch fun := call.Fun.(type) {
		case *ast.SelectorExpr:
			if sel := r.pkg.TypesInfo.Selections[fun]; sel != nil && sel.Kind() == types.MethodVal {
				fn, _ = sel.Obj().(*types.Func)
			} else if sel == nil {
				fn, _ = r.pkg.TypesInfo.Uses[fun.Sel].(*types.Func)
			}
		}
		if fn != nil && fn.Pkg() != nil && fn.Pkg().Path() == "os/exec" && fn.Name() == "Wait" {
			// (*exec.Cmd).Wait is the seam for the simulated child process: the library's own
			// process watcher stays real, only "the child has exited" comes from the simulator
			if sel, ok := call.Fun.(*ast.SelectorExpr); ok && len(call.Args) == 0 {
				r.add(call.Pos(), call.End(), lit(hookName+".CmdWait("), r.node(sel.X), lit(")"))
				st.Rewritten["cmd_wait"]++
			}
			return true
		}
		if fn != nil && fn.Pkg() != nil && fn.Pkg().Path() == "sync" && fn.Name() == "TryLock" && len(call.Args) == 0 {
			// x.TryLock() (an expression): goes through the lock model like Lock
			if sel, ok := call.Fun.(*ast.SelectorExpr); ok {
				recv := fn.Type().(*types.Signature).Recv().Type()
				if p, ok := recv.(*types.Pointer); ok {
					recv = p.Elem()
				}
				if named, ok := recv.(*types.Named); ok && (named.Obj().Name() == "Mutex" || named.Obj().Name() == "RWMutex") {
					kind := "Mutex"
					if named.Obj().Name() == "RWMutex" {
						kind = "RW"
					}
					amp := "&"
					if _, isPtr := r.pkg.TypesInfo.TypeOf(sel.X).Underlying().(*types.Pointer); isPtr {
						amp = ""
					}
					r.add(call.Pos(), call.End(),
						lit(fmt.Sprintf("%s.%sTryLock(%s(", hookName, kind, amp)), r.node(sel.X),
						lit(fmt.Sprintf("), %q)", r.site(call.Pos()))))
					st.Rewritten["trylock"]++
				}
			}
			return true
		}
		if fn == nil || fn.Pkg() == nil || fn.Pkg().Path() != "sync/atomic" {
			return true
		}
		sig := fn.Type().(*types.Signature)
		if sig.Results().Len() == 0 && stmtCalls[call] {
			// x.Store(v) as a statement: an interleaving point before the store
			r.addP(1, call.Pos(), call.Pos(), lit(fmt.Sprintf("%s.Yield(%q); ", hookName, r.site(call.Pos())+"#atomic-store")))
			st.Rewritten["atomic_store"]++
			return true
		}
		if sig.Results().Len() != 1 {
			return true
		}
		site := r.site(call.Pos()) + "#atomic"
		r.addP(1, call.Pos(), call.Pos(), lit(fmt.Sprintf("%s.Yv(%q, ", hookName, site)))
		r.addP(0, call.End(), call.End(), lit(")"))
		st.Rewritten["atomic"]++
		return true
	})
}

func (r *rewriter) block(b *ast.BlockStmt) {
	if b == nil {
		return
	}
	r.stmts(b.List)
}

func (r *rewriter) stmts(list []ast.Stmt) {
	for _, s := range list {
		r.stmt(s, true, false)
	}
}

// stmt visits a statement. inList says whether s is a direct element of a statement list
// (so that text may be inserted before/after it); labeled says whether s is the body of a label.
func (r *rewriter) stmt(s ast.Stmt, inList, labeled bool) {
	switch s := s.(type) {
	case nil:
		return
	case *ast.BlockStmt:
		r.block(s)
	case *ast.LabeledStmt:
		r.stmt(s.Stmt, false, true)
	case *ast.IfStmt:
		r.stmt(s.Init, false, false)
		r.exprFuncLits(s.Cond)
		r.block(s.Body)
		r.stmt(s.Else, false, false)
	case *ast.ForStmt:
		r.stmt(s.Init, false, false)
		r.exprFuncLits(s.Cond)
		r.stmt(s.Post, false, false)
		r.block(s.Body)
	case *ast.RangeStmt:
		r.rangeStmt(s, inList, labeled)
	case *ast.SwitchStmt:
		r.stmt(s.Init, false, false)
		r.exprFuncLits(s.Tag)
		for _, c := range s.Body.List {
			cc := c.(*ast.CaseClause)
			for _, e := range cc.List {
				r.exprFuncLits(e)
			}
			r.stmts(cc.Body)
		}
	case *ast.TypeSwitchStmt:
		r.stmt(s.Init, false, false)
		r.stmt(s.Assign, false, false)
		for _, c := range s.Body.List {
			r.stmts(c.(*ast.CaseClause).Body)
		}
	case *ast.SelectStmt:
		r.selectStmt(s, inList, labeled)
	case *ast.GoStmt:
		r.goStmt(s)
	case *ast.DeferStmt:
		if !r.lockCall(s.Call) {
			r.exprFuncLits(s.Call)
		}
	case *ast.ExprStmt:
		if call, ok := s.X.(*ast.CallExpr); ok && r.lockCall(call) {
			return
		}
		r.simple(s, inList)
	case *ast.SendStmt, *ast.AssignStmt, *ast.ReturnStmt, *ast.IncDecStmt, *ast.DeclStmt:
		r.simple(s, inList)
	default:
		// branch statements, empty statements: nothing to do
	}
}

// simple handles statements without nested statement structure (other than function literals).
func (r *rewriter) simple(s ast.Stmt, inList bool) {
	hasSend, hasRecv, hasClose := false, false, false
	if _, ok := s.(*ast.SendStmt); ok {
		hasSend = true
	}
	ast.Inspect(s, func(n ast.Node) bool {
		switch n := n.(type) {
		case *ast.FuncLit:
			r.block(n.Body)
			return false
		case *ast.UnaryExpr:
			if n.Op == token.ARROW {
				hasRecv = true
			}
		case *ast.CallExpr:
			if id, ok := n.Fun.(*ast.Ident); ok && id.Name == "close" && len(n.Args) == 1 {
				if _, isBuiltin := r.pkg.TypesInfo.Uses[id].(*types.Builtin); isBuiltin {
					hasClose = true
				}
			}
		}
		return true
	})
	if !(hasSend || hasRecv || hasClose) {
		return
	}
	kind := "recv"
	if hasSend {
		kind = "send"
	} else if hasClose {
		kind = "close"
	}
	if !inList {
		st.Uninstrumented = append(st.Uninstrumented, r.site(s.Pos())+" chan-op not in statement list")
		return
	}
	site := r.site(s.Pos())
	r.addP(0, s.Pos(), s.Pos(), lit(fmt.Sprintf("%s.Yield(%q); ", hookName, site+"#"+kind)))
	st.Rewritten["chan_"+kind]++
	if _, isRet := s.(*ast.ReturnStmt); hasRecv && !isRet {
		r.addP(2, s.End(), s.End(), lit(fmt.Sprintf("; %s.Yield(%q)", hookName, site+"#recvd")))
	}
}

// exprFuncLits descends into function literals found in an expression.
func (r *rewriter) exprFuncLits(e ast.Node) {
	if e == nil {
		return
	}
	ast.Inspect(e, func(n ast.Node) bool {
		if fl, ok := n.(*ast.FuncLit); ok {
			r.block(fl.Body)
			return false
		}
		return true
	})
}

// lockCall rewrites x.Lock()/Unlock()/RLock()/RUnlock() on sync.Mutex / sync.RWMutex.
func (r *rewriter) lockCall(call *ast.CallExpr) bool {
	sel, ok := call.Fun.(*ast.SelectorExpr)
	if !ok || len(call.Args) != 0 {
		return false
	}
	switch sel.Sel.Name {
	case "Lock", "Unlock", "RLock", "RUnlock":
	default:
		return false
	}
	selection := r.pkg.TypesInfo.Selections[sel]
	if selection == nil || selection.Kind() != types.MethodVal {
		return false
	}
	fn, ok := selection.Obj().(*types.Func)
	if !ok || fn.Pkg() == nil || fn.Pkg().Path() != "sync" {
		return false
	}
	recv := fn.Type().(*types.Signature).Recv().Type()
	if p, ok := recv.(*types.Pointer); ok {
		recv = p.Elem()
	}
	named, ok := recv.(*types.Named)
	if !ok {
		return false
	}
	var kind string
	switch named.Obj().Name() {
	case "Mutex":
		kind = "Mutex"
	case "RWMutex":
		kind = "RW"
	default:
		return false
	}
	if len(selection.Index()) != 1 {
		st.Uninstrumented = append(st.Uninstrumented, r.site(call.Pos())+" lock through embedding")
		return false
	}
	xt := r.pkg.TypesInfo.TypeOf(sel.X)
	amp := "&"
	if _, isPtr := xt.Underlying().(*types.Pointer); isPtr {
		amp = ""
	}
	r.add(call.Pos(), call.End(),
		lit(fmt.Sprintf("%s.%s%s(%s(", hookName, kind, sel.Sel.Name, amp)), r.node(sel.X),
		lit(fmt.Sprintf("), %q)", r.site(call.Pos()))))
	st.Rewritten["lock"]++
	return true
}

func (r *rewriter) goStmt(s *ast.GoStmt) {
	call := s.Call
	site := r.site(s.Pos())
	r.n++
	id := r.n
	var pre []seg
	pre = append(pre, lit("{ "))
	// callee
	var callee []seg
	hoistFun := true
	switch f := call.Fun.(type) {
	case *ast.FuncLit:
		hoistFun = false
	case *ast.Ident:
		if _, isFunc := r.pkg.TypesInfo.Uses[f].(*types.Func); isFunc {
			hoistFun = false
		}
		if _, isBuiltin := r.pkg.TypesInfo.Uses[f].(*types.Builtin); isBuiltin {
			st.Uninstrumented = append(st.Uninstrumented, site+" go builtin")
			r.exprFuncLits(call)
			return
		}
	case *ast.SelectorExpr:
		if sel := r.pkg.TypesInfo.Selections[f]; sel == nil {
			// qualified identifier pkg.Func
			if _, isFunc := r.pkg.TypesInfo.Uses[f.Sel].(*types.Func); isFunc {
				hoistFun = false
			}
		}
	}
	if hoistFun {
		fnName := fmt.Sprintf("_zgf%d", id)
		pre = append(pre, lit(fnName+" := "), r.node(call.Fun), lit("; "))
		callee = []seg{lit(fnName)}
	} else {
		callee = []seg{r.node(call.Fun)}
	}
	var args []seg
	for i, a := range call.Args {
		if i > 0 {
			args = append(args, lit(", "))
		}
		tv := r.pkg.TypesInfo.Types[a]
		if tv.Value != nil || tv.IsNil() {
			args = append(args, r.node(a))
			continue
		}
		an := fmt.Sprintf("_zga%d_%d", id, i)
		pre = append(pre, lit(an+" := "), r.node(a), lit("; "))
		args = append(args, lit(an))
	}
	if call.Ellipsis.IsValid() {
		args = append(args, lit("..."))
	}
	segs := append(pre, lit(fmt.Sprintf("%s.Go(%q, func() { ", hookName, site)))
	segs = append(segs, callee...)
	segs = append(segs, lit("("))
	segs = append(segs, args...)
	segs = append(segs, lit(") }) }"))
	r.add(s.Pos(), s.End(), segs...)
	st.Rewritten["go"]++
	// nested function literals keep being instrumented through the ranges above
	r.exprFuncLits(call)
}

func orderedBasic(t types.Type) bool {
	b, ok := t.Underlying().(*types.Basic)
	if !ok {
		return false
	}
	return b.Info()&(types.IsInteger|types.IsFloat|types.IsString) != 0
}

func (r *rewriter) rangeStmt(s *ast.RangeStmt, inList, labeled bool) {
	defer r.block(s.Body)
	r.exprFuncLits(s.X)
	xt := r.pkg.TypesInfo.TypeOf(s.X)
	if xt == nil {
		return
	}
	switch u := xt.Underlying().(type) {
	case *types.Chan:
		// for v := range ch { body }: yield after each receive
		site := r.site(s.Pos())
		r.add(s.Body.Lbrace+1, s.Body.Lbrace+1, lit(fmt.Sprintf(" %s.Yield(%q); ", hookName, site+"#rangerecvd")))
		st.Rewritten["chan_range"]++
	case *types.Map:
		if s.Key == nil && s.Value == nil {
			return
		}
		site := r.site(s.Pos())
		if s.Tok != token.DEFINE || labeled || !orderedBasic(u.Key()) {
			st.Uninstrumented = append(st.Uninstrumented, site+" map range (assign form, labeled or unordered key)")
			return
		}
		r.n++
		id := r.n
		m := fmt.Sprintf("_zm%d", id)
		keyName := fmt.Sprintf("_zk%d", id)
		if k, ok := s.Key.(*ast.Ident); ok && k.Name != "_" {
			keyName = k.Name
		}
		segs := []seg{lit("{ " + m + " := "), r.node(s.X),
			lit(fmt.Sprintf("; for _, %s := range %s.SortedKeys(%s) {", keyName, hookName, m))}
		if v, ok := s.Value.(*ast.Ident); ok && v.Name != "_" {
			segs = append(segs, lit(fmt.Sprintf(" %s, _zok%d := %s[%s]; if !_zok%d { continue }; _ = %s;", v.Name, id, m, keyName, id, v.Name)))
		} else if s.Value != nil {
			if _, isIdent := s.Value.(*ast.Ident); !isIdent {
				st.Uninstrumented = append(st.Uninstrumented, site+" map range (non-ident value)")
				return
			}
			segs = append(segs, lit(fmt.Sprintf(" if _, _zok%d := %s[%s]; !_zok%d { continue };", id, m, keyName, id)))
		} else {
			segs = append(segs, lit(fmt.Sprintf(" if _, _zok%d := %s[%s]; !_zok%d { continue };", id, m, keyName, id)))
		}
		segs = append(segs, lit(" _ = "+keyName+";"))
		segs = append(segs, lit(r.newlines(s.Pos(), s.Body.Lbrace)))
		r.add(s.Pos(), s.Body.Lbrace+1, segs...)
		r.addP(3, s.End(), s.End(), lit(" }"))
		st.Rewritten["map_range"]++
	}
}

func (r *rewriter) selectStmt(s *ast.SelectStmt, inList, labeled bool) {
	site := r.site(s.Pos())
	clauses := s.Body.List
	visitBodies := func() {
		for _, c := range clauses {
			cc := c.(*ast.CommClause)
			r.stmt(cc.Comm, false, false)
			r.stmts(cc.Body)
		}
	}
	if labeled || len(clauses) == 0 {
		st.Uninstrumented = append(st.Uninstrumented, site+" select (labeled or empty)")
		visitBodies()
		return
	}
	r.n++
	id := r.n
	type caseInfo struct {
		cc       *ast.CommClause
		isDef    bool
		isSend   bool
		chExpr   ast.Expr
		valExpr  ast.Expr // send value
		lhs      []ast.Expr
		tok      token.Token
		hasRecvV bool
	}
	var cases []caseInfo
	for _, c := range clauses {
		cc := c.(*ast.CommClause)
		ci := caseInfo{cc: cc}
		switch comm := cc.Comm.(type) {
		case nil:
			ci.isDef = true
		case *ast.SendStmt:
			ci.isSend = true
			ci.chExpr = comm.Chan
			ci.valExpr = comm.Value
		case *ast.ExprStmt:
			u, ok := ast.Unparen(comm.X).(*ast.UnaryExpr)
			if !ok || u.Op != token.ARROW {
				st.Uninstrumented = append(st.Uninstrumented, site+" select (odd recv)")
				visitBodies()
				return
			}
			ci.chExpr = u.X
		case *ast.AssignStmt:
			if len(comm.Rhs) != 1 {
				st.Uninstrumented = append(st.Uninstrumented, site+" select (odd assign)")
				visitBodies()
				return
			}
			u, ok := ast.Unparen(comm.Rhs[0]).(*ast.UnaryExpr)
			if !ok || u.Op != token.ARROW {
				st.Uninstrumented = append(st.Uninstrumented, site+" select (odd assign recv)")
				visitBodies()
				return
			}
			ci.chExpr = u.X
			ci.lhs = comm.Lhs
			ci.tok = comm.Tok
			ci.hasRecvV = true
		default:
			st.Uninstrumented = append(st.Uninstrumented, site+" select (unknown comm)")
			visitBodies()
			return
		}
		cases = append(cases, ci)
	}
	// header: evaluate operands once, in source order
	var hdr []seg
	hdr = append(hdr, lit("{ "))
	nComm := 0
	defIdx := -1
	for i, ci := range cases {
		if ci.isDef {
			defIdx = i
			continue
		}
		nComm++
		hdr = append(hdr, lit(fmt.Sprintf("_zc%d_%d := ", id, i)), r.node(ci.chExpr), lit("; "))
		if ci.isSend {
			tv := r.pkg.TypesInfo.Types[ci.valExpr]
			if tv.Value == nil && !tv.IsNil() {
				// typed, non-constant value: hoist (evaluated once, as the spec says)
				hdr = append(hdr, lit(fmt.Sprintf("_zv%d_%d := ", id, i)), r.node(ci.valExpr), lit("; "))
			}
		} else if ci.hasRecvV {
			hdr = append(hdr, lit(fmt.Sprintf("_zr%d_%d := %s.ZeroOf(_zc%d_%d); _zo%d_%d := false; _, _ = _zr%d_%d, _zo%d_%d; ",
				id, i, hookName, id, i, id, i, id, i, id, i)))
		}
	}
	commText := func(i int, ci caseInfo) []seg {
		if ci.isSend {
			tv := r.pkg.TypesInfo.Types[ci.valExpr]
			if tv.Value == nil && !tv.IsNil() {
				return []seg{lit(fmt.Sprintf("_zc%d_%d <- _zv%d_%d", id, i, id, i))}
			}
			return []seg{lit(fmt.Sprintf("_zc%d_%d <- ", id, i)), r.node(ci.valExpr)}
		}
		if ci.hasRecvV {
			return []seg{lit(fmt.Sprintf("_zr%d_%d, _zo%d_%d = <-_zc%d_%d", id, i, id, i, id, i))}
		}
		return []seg{lit(fmt.Sprintf("<-_zc%d_%d", id, i))}
	}
	idx := fmt.Sprintf("_zi%d", id)
	hdr = append(hdr, lit(fmt.Sprintf("%s := -1; ", idx)))
	if nComm == 0 {
		hdr = append(hdr, lit(fmt.Sprintf("%s.Yield(%q); ", hookName, site+"#select")))
	}
	if nComm > 0 {
		hdr = append(hdr, lit(fmt.Sprintf("for _, _zp%d := range %s.SelectOrder(%q, %d) { switch _zp%d { ", id, hookName, site, len(cases), id)))
		for i, ci := range cases {
			if ci.isDef {
				continue
			}
			hdr = append(hdr, lit(fmt.Sprintf("case %d: select { case ", i)))
			hdr = append(hdr, commText(i, ci)...)
			hdr = append(hdr, lit(fmt.Sprintf(": %s = %d; default: }; ", idx, i)))
		}
		hdr = append(hdr, lit(fmt.Sprintf("}; if %s >= 0 { break } }; ", idx)))
	}
	if defIdx >= 0 {
		hdr = append(hdr, lit(fmt.Sprintf("if %s < 0 { %s = %d }; ", idx, idx, defIdx)))
	} else {
		hdr = append(hdr, lit(fmt.Sprintf("if %s < 0 { %s.SelectBlock(%q); select { ", idx, hookName, site)))
		for i, ci := range cases {
			hdr = append(hdr, lit("case "))
			hdr = append(hdr, commText(i, ci)...)
			hdr = append(hdr, lit(fmt.Sprintf(": %s = %d; ", idx, i)))
		}
		hdr = append(hdr, lit(fmt.Sprintf("}; %s.Yield(%q) }; ", hookName, site+"#woke")))
	}
	hdr = append(hdr, lit(fmt.Sprintf("switch %s { default: panic(\"zzsimhook: select index\"); ", idx)))
	hdr = append(hdr, lit(r.newlines(s.Pos(), clauses[0].Pos())))
	r.add(s.Pos(), clauses[0].Pos(), hdr...)
	// clause headers
	for i, ci := range cases {
		cc := ci.cc
		var h []seg
		h = append(h, lit(fmt.Sprintf("case %d: ", i)))
		if ci.hasRecvV {
			// bind / assign the received values
			names := make([]seg, 0, 4)
			for j, l := range ci.lhs {
				if j > 0 {
					names = append(names, lit(", "))
				}
				names = append(names, r.node(l))
			}
			op := " = "
			if ci.tok == token.DEFINE {
				op = " := "
			}
			h = append(h, names...)
			if len(ci.lhs) == 2 {
				h = append(h, lit(fmt.Sprintf("%s_zr%d_%d, _zo%d_%d; ", op, id, i, id, i)))
			} else {
				h = append(h, lit(fmt.Sprintf("%s_zr%d_%d; ", op, id, i)))
			}
			if ci.tok == token.DEFINE {
				for _, l := range ci.lhs {
					if idn, ok := l.(*ast.Ident); ok && idn.Name != "_" {
						h = append(h, lit("_ = "+idn.Name+"; "))
					}
				}
			}
		}
		h = append(h, lit(r.newlines(cc.Pos(), cc.Colon+1)))
		r.add(cc.Pos(), cc.Colon+1, h...)
		r.stmts(cc.Body)
	}
	r.addP(3, s.End(), s.End(), lit(" }"))
	st.Rewritten["select"]++
	_ = constant.Int
}
