package props

import (
	"context"
	"encoding/json"
	"fmt"
	"math"
	"strings"
	"time"

	mcp "trpc.group/trpc-go/trpc-mcp-go"
	"verif/sim"
)

// C03 — every emitted message is a well-formed JSON-RPC 2.0 / MCP message.

func init() {
	register(&Scenario{Prop: "C03", Run: runC03, Opts: sim.Options{MaxSteps: 150000, MaxSimTime: 30 * time.Minute}})
}

func registerC03(c *Ctx, r registrar, count *Counter) {
	registerEcho(c, r, count)
	r.RegisterTool(mcp.NewTool("fail"), func(ctx context.Context, req *mcp.CallToolRequest) (*mcp.CallToolResult, error) {
		return nil, fmt.Errorf("handler-said-no-%v", req.Params.Arguments["nonce"])
	})
	r.RegisterTool(mcp.NewTool("nil"), func(ctx context.Context, req *mcp.CallToolRequest) (*mcp.CallToolResult, error) {
		return nil, nil
	})
	r.RegisterTool(mcp.NewTool("nan"), func(ctx context.Context, req *mcp.CallToolRequest) (*mcp.CallToolResult, error) {
		return &mcp.CallToolResult{Content: []mcp.Content{mcp.NewTextContent("x")}, StructuredContent: map[string]interface{}{"v": math.NaN()}}, nil
	})
	r.RegisterTool(mcp.NewTool("iserr"), func(ctx context.Context, req *mcp.CallToolRequest) (*mcp.CallToolResult, error) {
		return &mcp.CallToolResult{Content: []mcp.Content{mcp.NewTextContent("tool-level failure")}, IsError: true}, nil
	})
	r.RegisterTool(mcp.NewTool("rich"), func(ctx context.Context, req *mcp.CallToolRequest) (*mcp.CallToolResult, error) {
		return &mcp.CallToolResult{Content: []mcp.Content{
			mcp.NewTextContent(""), mcp.NewImageContent("aGk=", "image/png"), mcp.NewAudioContent("aGk=", "audio/wav"),
			mcp.NewEmbeddedResource(mcp.TextResourceContents{URI: "res://x", Text: "t"}),
			mcp.NewEmbeddedResource(mcp.BlobResourceContents{URI: "res://y", Blob: "aGk="}),
		}}, nil
	})
	r.RegisterPrompt(&mcp.Prompt{Name: "fail"}, func(ctx context.Context, req *mcp.GetPromptRequest) (*mcp.GetPromptResult, error) {
		return nil, fmt.Errorf("prompt-handler-said-no")
	})
	r.RegisterPrompt(&mcp.Prompt{Name: "nil"}, func(ctx context.Context, req *mcp.GetPromptRequest) (*mcp.GetPromptResult, error) {
		return nil, nil
	})
	r.RegisterResource(&mcp.Resource{Name: "fail", URI: "res://fail"}, func(ctx context.Context, req *mcp.ReadResourceRequest) (mcp.ResourceContents, error) {
		return nil, fmt.Errorf("resource-handler-said-no")
	})
	r.RegisterResource(&mcp.Resource{Name: "nil", URI: "res://nil"}, func(ctx context.Context, req *mcp.ReadResourceRequest) (mcp.ResourceContents, error) {
		return nil, nil
	})
	r.RegisterResources(&mcp.Resource{Name: "multi-nil", URI: "res://multi-nil"}, func(ctx context.Context, req *mcp.ReadResourceRequest) ([]mcp.ResourceContents, error) {
		return nil, nil
	})
	r.RegisterResources(&mcp.Resource{Name: "multi-nil-item", URI: "res://multi-nil-item"}, func(ctx context.Context, req *mcp.ReadResourceRequest) ([]mcp.ResourceContents, error) {
		return []mcp.ResourceContents{mcp.TextResourceContents{URI: "res://multi-nil-item#1", Text: "t"}, nil}, nil
	})
	r.RegisterResources(&mcp.Resource{Name: "multi-empty", URI: "res://multi-empty"}, func(ctx context.Context, req *mcp.ReadResourceRequest) ([]mcp.ResourceContents, error) {
		return []mcp.ResourceContents{}, nil
	})
	r.RegisterResources(&mcp.Resource{Name: "multi", URI: "res://multi"}, func(ctx context.Context, req *mcp.ReadResourceRequest) ([]mcp.ResourceContents, error) {
		return []mcp.ResourceContents{mcp.TextResourceContents{URI: "res://multi#1", Text: "t"}, mcp.BlobResourceContents{URI: "res://multi#2", Blob: "aGk="}}, nil
	})
	r.RegisterResource(&mcp.Resource{Name: "blob", URI: "res://blob"}, func(ctx context.Context, req *mcp.ReadResourceRequest) (mcp.ResourceContents, error) {
		return mcp.BlobResourceContents{URI: "res://blob", MIMEType: "application/octet-stream", Blob: "aGk="}, nil
	})
}

// handler-outcome requests: what the handler does decides the class.
func genOutcomes(nonce string) []genInput {
	mk := func(desc, method string, params interface{}, class string) genInput {
		id := nonce + "-" + desc
		return genInput{Desc: desc, Raw: rpcReq(id, method, params), Method: method, Class: class, IsRequest: true, ID: string(mustJSON(id))}
	}
	return []genInput{
		mk("tool handler error", "tools/call", map[string]interface{}{"name": "fail", "arguments": map[string]interface{}{"nonce": nonce}}, "handler-error:handler-said-no-"+nonce),
		mk("tool handler nil,nil", "tools/call", map[string]interface{}{"name": "nil"}, "handler-nil"),
		mk("tool result not encodable", "tools/call", map[string]interface{}{"name": "nan"}, "handler-unencodable"),
		mk("tool isError result", "tools/call", map[string]interface{}{"name": "iserr"}, "valid"),
		mk("tool rich content", "tools/call", map[string]interface{}{"name": "rich"}, "valid"),
		mk("prompt handler error", "prompts/get", map[string]interface{}{"name": "fail"}, "handler-error:prompt-handler-said-no"),
		mk("prompt handler nil,nil", "prompts/get", map[string]interface{}{"name": "nil"}, "handler-nil"),
		mk("resource handler error", "resources/read", map[string]interface{}{"uri": "res://fail"}, "handler-error:resource-handler-said-no"),
		mk("resource handler nil,nil", "resources/read", map[string]interface{}{"uri": "res://nil"}, "handler-nil"),
		mk("resource blob", "resources/read", map[string]interface{}{"uri": "res://blob"}, "valid"),
		// a nil slice is Go's empty list: either answer is in order, "contents": null is not
		mk("multi-content resource handler: nil slice", "resources/read", map[string]interface{}{"uri": "res://multi-nil"}, "lenient-result"),
		mk("multi-content resource handler: list with a nil item", "resources/read", map[string]interface{}{"uri": "res://multi-nil-item"}, "handler-nil"),
		mk("multi-content resource handler: empty list", "resources/read", map[string]interface{}{"uri": "res://multi-empty"}, "valid"),
		mk("multi-content resource: text and blob", "resources/read", map[string]interface{}{"uri": "res://multi"}, "valid"),
		mk("templates list", "resources/templates/list", nil, "lenient"),
	}
}

func runC03(c *Ctx) {
	s, t := c.S, c.T
	mode := allModes[int(c.Run)%len(allModes)]
	c.SetPlan("mode", mode)
	// in some runs a pass-through middleware spends scheduler steps on both sides of the chain, so
	// that requests of different peers overlap between "the answer exists" and "the answer is encoded"
	var srvOpts []mcp.ServerOption
	var sseOpts []mcp.SSEOption
	if t.Bool(40) {
		mw := func(next mcp.HandlerFunc) mcp.HandlerFunc {
			return func(ctx context.Context, req *mcp.JSONRPCRequest) (mcp.JSONRPCMessage, error) {
				s.Yield("mw#before")
				res, err := next(ctx, req)
				s.Yield("mw#after")
				s.Yield("mw#after2")
				return res, err
			}
		}
		srvOpts = append(srvOpts, mcp.WithMiddleware(mw))
		sseOpts = append(sseOpts, mcp.WithSSEMiddleware(mw))
		c.SetPlan("middleware", true)
	}
	w := newWorldOpts(c, mode, "srv", srvOpts, sseOpts)
	w.register(func(r registrar) { registerC03(c, r, w.Count) })
	s.Net.Faults = sim.NetFaults{ShortRead: t.Pick(0, 20)}
	inputs := append(append(genMutations("m"), genGarbage("g")...), genOutcomes("o")...)
	const batch = 24
	start := (int(c.Run) / len(allModes) * batch) % len(inputs)
	var mine []genInput
	for i := 0; i < batch; i++ {
		mine = append(mine, inputs[(start+i)%len(inputs)])
	}
	outs := genOutcomes("o")
	for i := 0; i < 3; i++ { // the handler-outcome cases are few: mix some into every run
		mine = append(mine, outs[t.Draw(len(outs))])
	}
	var descs []string
	for _, in := range mine {
		descs = append(descs, in.Desc)
	}
	c.SetPlan("inputs", descs)
	nPeers := 1 + t.Draw(2)
	var tasks []*sim.Task
	for k := 0; k < nPeers; k++ {
		peer, err := newRawPeer(c, w, fmt.Sprintf("peer%d", k), false)
		if err != nil {
			s.Violate("C03|handshake|mode="+mode, "raw peer handshake failed: %v", err)
			return
		}
		share := mine
		if nPeers == 2 {
			share = nil
			for i, in := range mine {
				if i%2 == k {
					share = append(share, in)
				}
			}
		}
		tasks = append(tasks, s.Go(fmt.Sprintf("peer%d", k), func() {
			for _, in := range share {
				r := peer.exchange(in.Raw, nil)
				c03Judge(c, mode, peer.kind, in, r)
				s.Yield("peer#next")
			}
			peer.close()
		}))
	}
	for _, a := range s.WaitTasks(25*time.Minute, tasks...) {
		s.Violate("C03|stuck|mode="+mode, "%s did not finish", a.Name)
	}
	// ---- the same fault from several peers at the same moment ----
	// 2-4 further peers send requests of one error class with ids of their own at once; each answer
	// must be the well-formed answer to *that* peer's request (its id, the code of the class)
	classes := []struct {
		name string
		code int
		make func(id string) []byte
	}{
		{"unknown-method", -32601, func(id string) []byte { return rpcReq(id, "verif/unknown", nil) }},
		{"unknown-method", -32601, func(id string) []byte { return rpcReq(id, "tools/call2", map[string]interface{}{"name": "ok"}) }},
		{"bad-params", -32602, func(id string) []byte { return rpcReq(id, "tools/call", map[string]interface{}{"name": 7}) }},
		{"bad-params", -32602, func(id string) []byte { return rpcReq(id, "prompts/get", map[string]interface{}{}) }},
	}
	cls := classes[t.Draw(len(classes))]
	nStorm := 2 + t.Draw(3)
	c.SetPlan("storm", fmt.Sprintf("%d x %s", nStorm, cls.name))
	var storm []*sim.Task
	for k := 0; k < nStorm; k++ {
		peer, err := newRawPeer(c, w, fmt.Sprintf("storm%d", k), false)
		if err != nil {
			s.Violate("C03|handshake|mode="+mode, "raw peer handshake failed: %v", err)
			return
		}
		storm = append(storm, s.Go(fmt.Sprintf("storm%d", k), func() {
			for i := 0; i < 2; i++ {
				id := fmt.Sprintf("storm-%d-%d", k, i)
				in := genInput{Desc: "storm " + cls.name, Raw: cls.make(id), IsRequest: true, ID: `"` + id + `"`, Class: cls.name}
				r := peer.exchange(in.Raw, nil)
				c03Judge(c, mode, peer.kind, in, r)
			}
			peer.close()
		}))
	}
	for _, a := range s.WaitTasks(25*time.Minute, storm...) {
		s.Violate("C03|stuck|mode="+mode, "%s did not finish", a.Name)
	}
	s.Probe("c03.storm." + cls.name)
	s.Probe("c03.mode." + mode)
}

func c03Judge(c *Ctx, mode, kind string, in genInput, r rawResult) {
	s := c.S
	v := func(what, format string, args ...interface{}) {
		s.Violate(fmt.Sprintf("C03|%s|mode=%s", what, mode), "input %q %s: "+format, append([]interface{}{in.Desc, short(string(in.Raw))}, args...)...)
	}
	if r.Err != nil {
		v("connection-dropped|"+in.Class, "the connection broke: %v", r.Err)
		return
	}
	for _, p := range r.Problems {
		v("framing", "%s", p)
	}
	var answers []frameInfo
	for _, f := range r.Frames {
		fi, problems := parseFrame(f)
		// nothing to echo; or an irregular envelope the server refused before looking at its id
		noUsableID := !in.IsRequest || in.Class == "lenient"
		var kept []string
		for _, p := range problems {
			if noUsableID && (p == "error response without id member" || strings.HasPrefix(p, "error response id is")) {
				continue // nothing to echo
			}
			if strings.HasPrefix(p, "response id is") || strings.HasPrefix(p, "error response id is") {
				if !in.IsRequest {
					continue // the peer's own id was of an odd type and was echoed
				}
			}
			kept = append(kept, p)
		}
		if len(kept) > 0 {
			v("malformed-frame|"+strings.SplitN(kept[0], " ", 3)[0]+"-"+strings.SplitN(kept[0]+" x", " ", 3)[1], "the server emitted %q: %s", short(string(f)), joinProblems(kept))
		}
		if fi.Kind == "response" || fi.Kind == "error" {
			answers = append(answers, fi)
		}
		if fi.Kind == "response" && in.Method != "" {
			if p := checkResult(in.Method, fi.Result); len(p) > 0 {
				v("result-shape|"+in.Method, "result %q does not have the shape MCP prescribes: %s", short(string(fi.Result)), joinProblems(p))
			}
		}
	}
	okStatus := r.Status == 0 || (r.Status >= 200 && r.Status < 300)
	if in.IsRequest {
		var mineA []frameInfo
		for _, a := range answers {
			if a.ID == in.ID {
				mineA = append(mineA, a)
			}
		}
		if okStatus && len(mineA) == 0 {
			if len(answers) > 0 {
				if in.Class != "lenient" {
					v("id-not-echoed", "request id %s, answer frames carry ids %v", in.ID, idsOf(answers))
				}
			} else if in.Class != "lenient" || kind != "stdio" {
				v("request-unanswered|"+in.Class, "a request (id %s) was answered with status %d and no JSON-RPC response or error (body %q)", in.ID, r.Status, short(string(r.Body)))
			}
		}
		if len(mineA) > 1 {
			v("answered-twice", "request id %s was answered %d times", in.ID, len(mineA))
		}
		for _, a := range mineA {
			switch {
			case in.Class == "unknown-method":
				if a.Kind != "error" || a.ErrCode != -32601 {
					v("code|unknown-method", "want error -32601, got %s code %d %q", a.Kind, a.ErrCode, a.ErrMsg)
				}
			case in.Class == "bad-params":
				if a.Kind != "error" || a.ErrCode != -32602 {
					v("code|bad-params", "want error -32602, got %s code %d %q", a.Kind, a.ErrCode, a.ErrMsg)
				}
			case strings.HasPrefix(in.Class, "handler-error:"):
				msg := strings.TrimPrefix(in.Class, "handler-error:")
				data := ""
				if e, ok := asObj(a.Obj["error"]); ok {
					data = string(e["data"])
				}
				if a.Kind != "error" || a.ErrCode != -32603 || !(strings.Contains(a.ErrMsg, msg) || strings.Contains(data, msg)) {
					v("code|handler-error", "want error -32603 carrying %q, got %s code %d message %q data %s", msg, a.Kind, a.ErrCode, a.ErrMsg, short(data))
				}
			case in.Class == "handler-unencodable":
				if a.Kind != "error" || a.ErrCode != -32603 {
					v("code|handler-unencodable", "want error -32603, got %s code %d", a.Kind, a.ErrCode)
				}
			case in.Class == "valid":
				if a.Kind != "response" {
					v("valid-request-refused|"+in.Method, "a valid request was answered with error %d %q", a.ErrCode, a.ErrMsg)
				}
			}
		}
	} else if in.Class == "not-json" && okStatus {
		hasErr := false
		for _, a := range answers {
			if a.Kind == "error" && (a.ErrCode == -32700 || a.ErrCode == -32600) {
				hasErr = true
			}
		}
		if !hasErr {
			v("code|not-json", "unparsable input must be answered with -32700 or an HTTP 4xx; got status %d and %d frames", r.Status, len(r.Frames))
		}
	}
}

func idsOf(a []frameInfo) []string {
	var out []string
	for _, x := range a {
		out = append(out, x.ID)
	}
	return out
}

var _ = json.Marshal
