package props

import (
	"context"
	"fmt"
	"strings"
	"time"

	mcp "trpc.group/trpc-go/trpc-mcp-go"
	"verif/sim"
)

// C06 — servers survive arbitrary peer input.

func init() {
	register(&Scenario{Prop: "C06", Run: runC06, Post: postC06, Opts: sim.Options{MaxSteps: 150000, MaxSimTime: 30 * time.Minute}})
}

func postC06(c *Ctx, res *sim.Result) []sim.Violation {
	var out []sim.Violation
	mode, _ := c.Plan["mode"].(string)
	for _, e := range res.LibEvents {
		if strings.Contains(e, "panic") {
			where := e
			if i := strings.Index(e, " ["); i > 0 {
				where = e[:i]
			}
			out = append(out, sim.Violation{Sig: fmt.Sprintf("C06|%s|mode=%s", strings.ReplaceAll(where, " ", "-"), mode), Msg: "a peer's input made the server panic: " + e + "\n" + strings.Join(res.Notes, "\n"), Step: res.Steps})
		}
		if strings.Contains(e, "livelock") {
			out = append(out, sim.Violation{Sig: "C06|livelock|mode=" + mode, Msg: e, Step: res.Steps})
		}
	}
	return out
}

func runC06(c *Ctx) {
	s, t := c.S, c.T
	mode := allModes[int(c.Run)%len(allModes)]
	c.SetPlan("mode", mode)
	w := newWorld(c, mode, "srv")
	w.register(func(r registrar) { registerEcho(c, r, w.Count) })
	s.Net.Faults = sim.NetFaults{ShortRead: t.Pick(0, 20)}
	if (mode == "json" || mode == "post-sse") && t.Bool(15) {
		c06StalledConsumer(c, w, mode)
		return
	}
	inputs := append(genMutations("m"), genGarbage("g")...)
	const batch = 24
	start := (int(c.Run) / len(allModes) * batch) % len(inputs)
	var mine []genInput
	for i := 0; i < batch; i++ {
		mine = append(mine, inputs[(start+i)%len(inputs)])
	}
	if t.Bool(40) { // shuffle some random ones in (sampling on top of the enumeration)
		for i := 0; i < 6; i++ {
			mine[t.Draw(len(mine))] = inputs[t.Draw(len(inputs))]
		}
	}
	var descs []string
	for _, in := range mine {
		descs = append(descs, in.Desc)
	}
	c.SetPlan("inputs", descs)
	c.SetPlan("lattice_size", len(inputs))

	// well-behaved clients working on the same server while the adversary is at it
	nGood := 1 + t.Draw(2)
	var goodTasks []*sim.Task
	goodReady := 0
	var goods []*Client
	for k := 0; k < nGood; k++ {
		cl := w.newClient()
		goods = append(goods, cl)
		if err := initClient(c, cl); err != nil {
			s.Violate("C06|good-client-init|mode="+mode, "well-behaved client could not initialize: %v", err)
			return
		}
		goodReady++
	}
	adv, err := newRawPeer(c, w, "adv", false)
	if err != nil {
		s.Violate("C06|adversary-handshake|mode="+mode, "raw peer handshake failed: %v", err)
		return
	}
	s.Settle(5 * time.Millisecond)
	before := len(s.LiveLibTasks())
	for k, cl := range goods {
		n := 2 + t.Draw(4)
		goodTasks = append(goodTasks, s.Go(fmt.Sprintf("good%d", k), func() {
			for i := 0; i < n; i++ {
				nonce := c.Nonce("ok")
				ctx, cancel := context.WithTimeout(context.Background(), 3*time.Minute)
				res, err := cl.API.CallTool(ctx, callToolReq("echo", map[string]interface{}{"nonce": nonce}))
				cancel()
				if err != nil {
					s.Violate(fmt.Sprintf("C06|good-client-starved|mode=%s|%s", mode, errClass(err)), "a well-behaved client's call failed while another peer sent malformed input: %v", err)
				} else if textOf(res) != "r:"+nonce {
					s.Violate("C06|good-client-wrong-answer|mode="+mode, "well-behaved client got %q", short(textOf(res)))
				}
				s.Yield("good#next")
			}
		}))
	}
	advTask := s.Go("adversary", func() {
		for _, in := range mine {
			r := adv.exchange(in.Raw, nil)
			if r.Err != nil {
				s.Violate(fmt.Sprintf("C06|connection-dropped|mode=%s|%s", mode, in.Class), "input %q: the connection broke: %v", in.Desc, r.Err)
				continue
			}
			// what the statement asks for the inputs that are clearly not servable
			switch in.Class {
			case "not-json", "bad-envelope", "unknown-method", "bad-params":
				refused := r.Status >= 400
				for _, f := range r.Frames {
					if fi, _ := parseFrame(f); fi.Kind == "error" {
						refused = true
					}
				}
				if !refused {
					s.Violate(fmt.Sprintf("C06|not-refused|mode=%s|%s", mode, in.Class),
						"input %q (%s) was answered neither by an HTTP error status nor by a JSON-RPC error: status %d, %d frames %s", in.Desc, short(string(in.Raw)), r.Status, len(r.Frames), short(framesText(r.Frames)))
				}
			}
			s.Yield("adversary#next")
		}
		if err := adv.ping("after-batch"); err != nil {
			s.Violate("C06|same-connection-dead|mode="+mode, "after the batch the same peer's well-formed ping is not served: %v", err)
		}
	})
	// HTTP-level garbage
	if adv.kind != "stdio" {
		goodTasks = append(goodTasks, s.Go("http-garbage", func() {
			base := "http://srv/mcp"
			if adv.kind == "legacy-sse" {
				base = "http://srv" + adv.endpoint
			}
			type tc struct {
				desc, method, url string
				hdr               map[string]string
				body              []byte
				must4xx           bool
			}
			cases := []tc{
				{"PUT", "PUT", base, jsonHdr, rpcReq(1, "ping", nil), true},
				{"PATCH", "PATCH", base, jsonHdr, rpcReq(1, "ping", nil), true},
				{"OPTIONS", "OPTIONS", base, nil, nil, true},
				{"wrong path", "POST", "http://srv/not-mcp", jsonHdr, rpcReq(1, "ping", nil), true},
				{"wrong path below", "POST", "http://srv/mcp/extra/segments", jsonHdr, rpcReq(1, "ping", nil), true},
				{"garbage session id", "POST", "http://srv/mcp", withSession(jsonHdr, "\x7f;DROP TABLE sessions;--"), rpcReq(1, "ping", nil), false},
				{"no content type", "POST", base, map[string]string{"Mcp-Session-Id": adv.sid}, rpcReq(1, "ping", nil), false},
				{"garbage accept", "POST", base, withSession(map[string]string{"Content-Type": "application/json", "Accept": ";;;q=,*/"}, adv.sid), rpcReq(1, "ping", nil), false},
				{"content type xml", "POST", base, withSession(map[string]string{"Content-Type": "text/xml"}, adv.sid), []byte("<a/>"), false},
				{"DELETE without id", "DELETE", "http://srv/mcp", nil, nil, false},
				{"GET without id", "GET", "http://srv/mcp", map[string]string{"Accept": "text/event-stream"}, nil, false},
			}
			for i := 0; i < 4; i++ {
				x := cases[c.T.Draw(len(cases))]
				ctx, cancel := context.WithTimeout(context.Background(), time.Minute)
				r := rawDo(c, ctx, x.method, x.url, x.hdr, x.body)
				cancel()
				if r.Err != nil {
					if strings.Contains(r.Err.Error(), "deadline") {
						continue // a GET that was actually given a stream
					}
					s.Violate("C06|connection-dropped|mode="+mode+"|http", "%s: the connection broke: %v", x.desc, r.Err)
					continue
				}
				if x.must4xx && r.Status < 400 && w.Mode != "legacy-sse" {
					s.Violate(fmt.Sprintf("C06|not-refused|mode=%s|http-%s", mode, strings.ReplaceAll(x.desc, " ", "-")), "%s %s was answered with status %d and body %q", x.method, x.url, r.Status, short(string(r.Body)))
				}
				if x.must4xx && r.Status < 400 && w.Mode == "legacy-sse" && !strings.Contains(x.desc, "path") {
					s.Violate(fmt.Sprintf("C06|not-refused|mode=%s|http-%s", mode, strings.ReplaceAll(x.desc, " ", "-")), "%s %s was answered with status %d and body %q", x.method, x.url, r.Status, short(string(r.Body)))
				}
			}
		}))
	}
	// handshake garbage: a peer without a session sends a malformed initialize, then goes on in whatever
	// session the server handed out for it (initialized notification, a request)
	if adv.kind == "streamable" {
		var inits []genInput
		for _, in := range inputs {
			if in.Method == "initialize" && in.Class != "valid" {
				inits = append(inits, in)
			}
		}
		bad := inits[(int(c.Run)/len(allModes))%len(inits)]
		c.SetPlan("handshake_garbage", bad.Desc)
		goodTasks = append(goodTasks, s.Go("handshake-garbage", func() {
			ctx, cancel := context.WithTimeout(context.Background(), 2*time.Minute)
			defer cancel()
			r := rawDo(c, ctx, "POST", "http://srv/mcp", jsonHdr, bad.Raw)
			if r.Err != nil {
				return
			}
			sid := r.Header.Get("Mcp-Session-Id")
			if sid == "" {
				return
			}
			rawDo(c, ctx, "POST", "http://srv/mcp", withSession(jsonHdr, sid), rpcNotif("notifications/initialized", nil))
			rawDo(c, ctx, "POST", "http://srv/mcp", withSession(jsonHdr, sid), rpcNotif("notifications/initialized", nil))
			rawDo(c, ctx, "POST", "http://srv/mcp", withSession(jsonHdr, sid), rpcReq("hg", "tools/list", nil))
		}))
	}
	all := append(goodTasks, advTask)
	for _, a := range s.WaitTasks(25*time.Minute, all...) {
		s.Violate("C06|stuck|mode="+mode, "%s did not finish (deadlock or lost answer)", a.Name)
	}
	if lb := s.LockBlocked(); len(lb) > 0 {
		s.Violate("C06|deadlock|mode="+mode, "tasks blocked on locks at the end: %v", lb)
	}
	// a fresh connection is served too (in a task of its own: a wedged server must yield a verdict, not a capped run)
	freshDone := false
	freshTask := s.Go("fresh-peer", func() {
		fresh, err := newRawPeer(c, w, "fresh", false)
		if err != nil {
			s.Violate("C06|fresh-connection-dead|mode="+mode, "after the batch a fresh peer cannot complete the handshake: %v", err)
		} else {
			if err := fresh.ping("fresh"); err != nil {
				s.Violate("C06|fresh-connection-dead|mode="+mode, "after the batch a fresh peer's ping is not served: %v", err)
			}
			fresh.close()
		}
		// ... and a fresh library client can shake hands
		cl := w.newClient()
		if err := initClient(c, cl); err != nil {
			s.Violate("C06|fresh-client-dead|mode="+mode, "after the batch a fresh library client cannot initialize: %v", err)
		}
		cl.API.Close()
		freshDone = true
	})
	s.WaitTasks(8*time.Minute, freshTask)
	if !freshDone {
		s.Violate("C06|fresh-connection-stuck|mode="+mode, "after the batch the handshake of a fresh peer never completes (the server is wedged); tasks blocked on locks: %v", s.LockBlocked())
	}
	s.Settle(50 * time.Millisecond)
	after := len(s.LiveLibTasks())
	extra := 0
	if adv.kind == "stdio" {
		extra = 0
	}
	if after > before+extra+1 {
		s.Violate("C06|goroutine-growth|mode="+mode, "%d library goroutines before the batch of %d malformed inputs, %d after it: %v", before, len(mine), after, s.LiveLibTasks())
	}
	adv.close()
	for _, g := range goods {
		g.API.Close()
	}
	s.Probe("c06.mode." + mode)
}

func framesText(fr [][]byte) string {
	var parts []string
	for _, f := range fr {
		parts = append(parts, string(f))
	}
	return strings.Join(parts, " | ")
}

// c06StalledConsumer: a peer opens its listening stream and stops reading it (its socket buffers
// fill up, the server's writes to it block) while the server keeps sending to it.  The stalled
// peer may only cost itself: other clients open their streams, call, are notified and delete their
// sessions as usual.
func c06StalledConsumer(c *Ctx, w *World, mode string) {
	s, t := c.S, c.T
	c.SetPlan("adversary", "stalled consumer of its listening stream")
	sid, err := rawSession(c, "srv")
	if err != nil {
		s.Violate("C06|adversary-handshake|mode="+mode, "raw handshake failed: %v", err)
		return
	}
	rs, err := rawOpenStream(c, "adv/get", "GET", "http://srv/mcp", withSession(map[string]string{"Accept": "text/event-stream"}, sid), nil)
	if err != nil || rs.Status != 200 {
		s.Violate("C06|adversary-handshake|mode="+mode, "GET stream refused: %v", err)
		return
	}
	rs.Conn.StopReading(8 << 10)
	before := len(s.LiveLibTasks())
	nSend := 3 + t.Draw(6)
	var senders []*sim.Task
	for k := 0; k < 1+t.Draw(2); k++ {
		senders = append(senders, s.Go(fmt.Sprintf("sender%d", k), func() {
			for i := 0; i < nSend; i++ {
				w.Srv.SendNotification(sid, "notifications/verif", map[string]interface{}{"pad": payload("p", 4<<10)})
				s.Yield("sender#next")
			}
		}))
	}
	s.Settle(5 * time.Millisecond) // the senders are blocked in their writes by now
	good := s.Go("good", func() {
		cl := w.newClient()
		seen := newCounter()
		cl.HTTP.RegisterNotificationHandler("notifications/verif", func(n *mcp.JSONRPCNotification) error {
			v, _ := n.Params.AdditionalFields["nonce"].(string)
			seen.Inc(v)
			return nil
		})
		if err := initClient(c, cl); err != nil {
			s.Violate("C06|good-client-init|mode="+mode+"|stalled-peer", "while another peer does not read its stream a well-behaved client cannot initialize: %v", err)
			return
		}
		for i := 0; i < 200 && mcp.VerifGetSSEStreamCount(w.Srv) < 2; i++ {
			s.Settle(time.Millisecond)
		}
		if mcp.VerifGetSSEStreamCount(w.Srv) < 2 {
			s.Violate("C06|good-client-starved|mode="+mode+"|stream", "while another peer does not read its stream a well-behaved client's listening stream is not established")
		}
		for i := 0; i < 2; i++ {
			nonce := c.Nonce("ok")
			ctx, cancel := context.WithTimeout(context.Background(), 2*time.Minute)
			res, err := cl.API.CallTool(ctx, callToolReq("echo", map[string]interface{}{"nonce": nonce}))
			cancel()
			if err != nil || textOf(res) != "r:"+nonce {
				s.Violate(fmt.Sprintf("C06|good-client-starved|mode=%s|%s", mode, errClass(err)), "while another peer does not read its stream a well-behaved client's call failed: %v", err)
			}
		}
		nn := c.Nonce("N")
		done := false
		nt := s.Go("good/notify", func() {
			if err := w.Srv.SendNotification(cl.HTTP.GetSessionID(), "notifications/verif", map[string]interface{}{"nonce": nn}); err != nil {
				s.Violate("C06|good-client-starved|mode="+mode+"|notification", "a notification to a well-behaved client failed while another peer does not read its stream: %v", err)
			}
			done = true
		})
		s.WaitTasks(time.Minute, nt)
		s.Settle(10 * time.Millisecond)
		if !done || seen.Get(nn) != 1 {
			s.Violate("C06|good-client-starved|mode="+mode+"|notification", "a notification to a well-behaved client was delivered %d times (send returned: %v) while another peer does not read its stream", seen.Get(nn), done)
		}
		ctx, cancel := context.WithTimeout(context.Background(), time.Minute)
		terr := cl.HTTP.TerminateSession(ctx)
		cancel()
		if terr != nil {
			s.Violate(fmt.Sprintf("C06|good-client-starved|mode=%s|delete-%s", mode, errClass(terr)), "a well-behaved client cannot end its session while another peer does not read its stream: %v", terr)
		}
		cl.API.Close()
	})
	for _, a := range s.WaitTasks(10*time.Minute, good) {
		s.Violate("C06|deadlock|mode="+mode+"|stalled-peer", "%s never finished while another peer does not read its stream (lock-blocked tasks: %v)", a.Name, s.LockBlocked())
	}
	// the adversary goes away: everything it held up ends
	rs.Close()
	for _, a := range s.WaitTasks(5*time.Minute, senders...) {
		s.Violate("C06|deadlock|mode="+mode+"|stalled-peer-gone", "%s is still blocked after the stalled peer's connection is gone", a.Name)
	}
	s.Settle(50 * time.Millisecond)
	if after := len(s.LiveLibTasks()); after > before {
		s.Violate("C06|goroutine-leak|mode="+mode+"|stalled-peer", "%d library goroutines before, %d after the stalled peer left: %v", before, after, s.LiveLibTasks())
	}
	s.Probe("c06.stalled_consumer")
}
