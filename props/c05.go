package props

import (
	"context"
	"encoding/json"
	"fmt"
	"sort"
	"strings"
	"time"

	mcp "trpc.group/trpc-go/trpc-mcp-go"
	"verif/sim"
)

// C05 — server-initiated traffic reaches exactly the addressed session.

func init() {
	register(&Scenario{Prop: "C05", Run: runC05, Opts: sim.Options{MaxSteps: 150000, MaxSimTime: 40 * time.Minute}})
}

type c05Session struct {
	name   string
	sid    string
	lib    *Client
	raw    *RawStream
	roots  []mcp.Root
	seen   *Counter // nonces handled by the lib client's handler
	closed bool
}

// wireNonces returns, per GET connection of the run, the ordered list of nonces of notification frames.
func c05WireIndex(c *Ctx) map[string][]string {
	out := map[string][]string{} // session id -> nonces in wire order (all its GET streams, in connection order)
	for _, conn := range c.S.Net.Conns() {
		if conn.Method != "GET" || !conn.Reached {
			continue
		}
		sid := conn.ReqHeader.Get("Mcp-Session-Id")
		if conn.Path == "/mcp/sse" {
			sid = fmt.Sprintf("legacy-c%d", conn.ID)
		}
		var p SSEParser
		for _, ev := range p.Feed(conn.Bytes()) {
			var m struct {
				Method string `json:"method"`
				Params struct {
					Nonce string `json:"nonce"`
				} `json:"params"`
			}
			if json.Unmarshal([]byte(ev.Data), &m) == nil && m.Params.Nonce != "" {
				out[sid] = append(out[sid], m.Params.Nonce)
			}
		}
	}
	return out
}

func runC05(c *Ctx) {
	s, t := c.S, c.T
	switch {
	case t.Bool(25):
		c05Legacy(c)
		return
	case t.Bool(20):
		c05Stdio(c)
		return
	}
	c.SetPlan("server", "streamable")
	w := newWorld(c, "post-sse", "srv")
	s.Net.Faults = sim.NetFaults{ShortRead: t.Pick(0, 20), Delay: t.Pick(0, 5)}
	registerC09Tools(c, w.Reg, w.Count)
	nSess := 1 + t.Draw(4)
	var sess []*c05Session
	var kinds []string
	for i := 0; i < nSess; i++ {
		se := &c05Session{name: fmt.Sprintf("s%d", i), seen: newCounter()}
		se.roots = []mcp.Root{{URI: fmt.Sprintf("file:///%s/a", se.name), Name: se.name + "-a"}, {URI: fmt.Sprintf("file:///%s/b", se.name), Name: se.name + "-b"}}
		if t.Bool(60) {
			cl := w.newClient()
			cl.HTTP.SetRootsProvider(fixedRoots{se.roots})
			cl.HTTP.RegisterNotificationHandler("notifications/verif", func(n *mcp.JSONRPCNotification) error {
				v, _ := n.Params.AdditionalFields["nonce"].(string)
				se.seen.Inc(v)
				return nil
			})
			if err := initClient(c, cl); err != nil {
				s.Violate("C05|init-failed", "Initialize failed: %v", err)
				return
			}
			se.lib = cl
			se.sid = cl.HTTP.GetSessionID()
			kinds = append(kinds, "lib")
		} else {
			sid, err := rawSession(c, "srv")
			if err != nil {
				s.Violate("C05|init-failed", "raw handshake failed: %v", err)
				return
			}
			se.sid = sid
			rs, err := rawOpenStream(c, se.name+"/get", "GET", "http://srv/mcp", withSession(map[string]string{"Accept": "text/event-stream"}, sid), nil)
			if err != nil || rs.Status != 200 {
				s.Violate("C05|init-failed", "raw GET failed: %v", err)
				return
			}
			se.raw = rs
			kinds = append(kinds, "raw")
		}
		sess = append(sess, se)
	}
	c.SetPlan("sessions", kinds)
	// quiescent starting state: every session's GET stream is open and registered
	for i := 0; i < 400 && mcp.VerifGetSSEStreamCount(w.Srv) < nSess; i++ {
		s.Settle(10 * time.Millisecond)
	}
	if mcp.VerifGetSSEStreamCount(w.Srv) < nSess {
		s.Note("not every GET stream came up; run decides nothing")
		s.Probe("c05.setup_incomplete")
		return
	}

	type sendRec struct {
		kind   string // send | broadcast | filtered
		nonce  string
		target []string // session ids selected
		err    error
		count  int
		failed int
		task   int
	}
	var recs []*sendRec
	sizes := []int{0, 0, 100, 5000}
	if t.Bool(30) {
		sizes = append(sizes, 66000)
	}
	var tasks []*sim.Task
	nSenders := 1 + t.Draw(3)
	for k := 0; k < nSenders; k++ {
		n := 1 + t.Draw(6)
		tasks = append(tasks, s.Go(fmt.Sprintf("sender%d", k), func() {
			for i := 0; i < n; i++ {
				r := &sendRec{nonce: c.Nonce("x"), task: k}
				params := map[string]interface{}{"nonce": r.nonce, "pad": strings.Repeat("p", sizes[c.T.Draw(len(sizes))])}
				switch c.T.Draw(3) {
				case 0:
					r.kind = "send"
					se := sess[c.T.Draw(len(sess))]
					r.target = []string{se.sid}
					r.err = w.Srv.SendNotification(se.sid, "notifications/verif", params)
				case 1:
					r.kind = "broadcast"
					for _, se := range sess {
						r.target = append(r.target, se.sid)
					}
					r.count, r.err = w.Srv.BroadcastNotification("notifications/verif", params)
				case 2:
					r.kind = "filtered"
					sel := map[string]bool{}
					for _, se := range sess {
						if c.T.Bool(50) {
							sel[se.sid] = true
							r.target = append(r.target, se.sid)
						}
					}
					r.count, r.failed, r.err = w.Srv.SendFilteredNotification("notifications/verif", params, func(id string) bool { return sel[id] })
				}
				c.mu.Lock()
				recs = append(recs, r)
				c.mu.Unlock()
				s.Yield("sender#next")
			}
		}))
	}
	// roots requests: lib clients call the "roots-names" tool, whose handler asks *their* session for its roots
	w.Reg.RegisterTool(mcp.NewTool("roots-names"), func(ctx context.Context, req *mcp.CallToolRequest) (*mcp.CallToolResult, error) {
		rctx, cancel := context.WithTimeout(ctx, 45*time.Second)
		defer cancel()
		res, err := w.Srv.ListRoots(rctx)
		if err != nil {
			return &mcp.CallToolResult{Content: []mcp.Content{mcp.NewTextContent("err:" + err.Error())}}, nil
		}
		var names []string
		for _, r := range res.Roots {
			names = append(names, r.Name+"="+r.URI)
		}
		return &mcp.CallToolResult{Content: []mcp.Content{mcp.NewTextContent("roots:" + strings.Join(names, ","))}}, nil
	})
	type rootsRec struct {
		se  *c05Session
		got string
		err error
	}
	var rootsRecs []*rootsRec
	for _, se := range sess {
		if se.lib == nil || !t.Bool(60) {
			continue
		}
		n := 1 + t.Draw(2)
		tasks = append(tasks, s.Go(se.name+"/rootscaller", func() {
			for i := 0; i < n; i++ {
				ctx, cancel := context.WithTimeout(context.Background(), 3*time.Minute)
				res, err := se.lib.API.CallTool(ctx, callToolReq("roots-names", nil))
				cancel()
				rr := &rootsRec{se: se, err: err}
				if err == nil {
					rr.got = textOf(res)
				}
				c.mu.Lock()
				rootsRecs = append(rootsRecs, rr)
				c.mu.Unlock()
			}
		}))
	}
	// a forger: another session posts answers with guessed request ids
	var forger *c05Session
	for _, se := range sess {
		if se.raw != nil {
			forger = se
		}
	}
	forged := 0
	if forger != nil && len(rootsRecs) >= 0 {
		nForge := t.Draw(6)
		tasks = append(tasks, s.Go("forger", func() {
			for i := 0; i < nForge; i++ {
				id := 1 + c.T.Draw(4)
				body := mustJSON(map[string]interface{}{"jsonrpc": "2.0", "id": id, "result": map[string]interface{}{"roots": []interface{}{map[string]interface{}{"uri": "file:///forged", "name": "forged"}}}})
				r := rawDo(c, context.Background(), "POST", "http://srv/mcp", withSession(jsonOnlyHdr, forger.sid), body)
				if r.Err == nil {
					forged++
				}
				if c.T.Bool(50) {
					s.Sleep(time.Millisecond)
				}
			}
		}))
	}
	// a peer that goes away in the middle: the listening stream of a raw session breaks while
	// senders are writing to it (their writes fail); nothing meant for it may surface elsewhere
	if t.Bool(35) {
		var victims []*c05Session
		for _, se := range sess {
			if se.raw != nil && se != forger {
				victims = append(victims, se)
			}
		}
		if len(victims) > 0 {
			v := victims[t.Draw(len(victims))]
			wait := t.Draw(120)
			c.SetPlan("stream_breaks", v.name)
			tasks = append(tasks, s.Go("breaker", func() {
				for i := 0; i < wait; i++ {
					s.Yield("breaker#wait")
				}
				v.raw.Close()
				s.Probe("c05.stream_broken")
			}))
		}
	}
	for _, a := range s.WaitTasks(30*time.Minute, tasks...) {
		s.Violate("C05|stuck", "%s did not finish", a.Name)
	}
	s.Settle(50 * time.Millisecond)

	// ---- oracle ----
	// A session counts as "had an open stream throughout" only if it opened exactly one GET stream and
	// that stream is still open now (a library client whose stream reader gave up closes its stream;
	// what the *client* does with frames is C07's question, not this one's).
	openThroughout := map[string]bool{}
	getCount := map[string]int{}
	for _, conn := range s.Net.Conns() {
		if conn.Method == "GET" && conn.Reached {
			sid := conn.ReqHeader.Get("Mcp-Session-Id")
			getCount[sid]++
			openThroughout[sid] = !conn.Done() && !conn.BodyClosed && conn.ReadErr == ""
		}
	}
	for sid, n := range getCount {
		if n != 1 {
			openThroughout[sid] = false
		}
	}
	allOpen := func(ids []string) bool {
		for _, id := range ids {
			if !openThroughout[id] {
				return false
			}
		}
		return true
	}
	wire := c05WireIndex(c)
	onWire := func(nonce string) map[string]int {
		m := map[string]int{}
		for sid, list := range wire {
			for _, n := range list {
				if n == nonce {
					m[sid]++
				}
			}
		}
		return m
	}
	for _, r := range recs {
		got := onWire(r.nonce)
		sel := map[string]bool{}
		for _, id := range r.target {
			sel[id] = true
		}
		reached := 0
		for sid, n := range got {
			if !sel[sid] {
				s.Violate("C05|leak|"+r.kind, "%s %s addressed to %v appeared on the stream of session %s", r.kind, r.nonce, r.target, sid)
			}
			if n > 1 {
				s.Violate("C05|duplicate|"+r.kind, "%s %s was delivered %d times on session %s", r.kind, r.nonce, n, sid)
			}
			reached++
		}
		switch r.kind {
		case "send":
			if !allOpen(r.target) {
				s.Probe("c05.excluded_stream_closed")
				break
			}
			if r.err == nil && reached != 1 {
				s.Violate("C05|lost|send", "SendNotification(%s) returned success but the notification is on %d streams", r.nonce, reached)
			}
			if r.err != nil {
				// quiescent state: stream open, registered, handshake complete, no fault
				s.Violate("C05|send-failed|"+errWord(r.err), "SendNotification to a session with an open, registered stream failed: %v", r.err)
			}
		case "broadcast":
			if r.err == nil && r.count != reached {
				s.Violate("C05|count|broadcast", "BroadcastNotification(%s) reported %d sessions reached, the wire shows %d", r.nonce, r.count, reached)
			}
			if r.err == nil && reached != len(sess) && allOpen(r.target) {
				s.Violate("C05|lost|broadcast", "BroadcastNotification(%s) reached %d of %d sessions with open streams", r.nonce, reached, len(sess))
			}
		case "filtered":
			if r.err == nil && r.count != reached {
				s.Violate("C05|count|filtered", "SendFilteredNotification(%s) reported %d reached, the wire shows %d", r.nonce, r.count, reached)
			}
			if r.err == nil && reached != len(r.target) && allOpen(r.target) {
				s.Violate("C05|lost|filtered", "SendFilteredNotification(%s) reached %d of %d selected sessions with open streams", r.nonce, reached, len(r.target))
			}
		}
	}
	// order: sends of one task to one session appear in sending order
	for sid, list := range wire {
		pos := map[string]int{}
		for i, n := range list {
			pos[n] = i
		}
		last := map[int]int{}
		for _, r := range recs {
			p, ok := pos[r.nonce]
			if !ok {
				continue
			}
			if lp, ok := last[r.task]; ok && p < lp {
				s.Violate("C05|order", "session %s: notification %s of sender %d was delivered before an earlier one of the same sender", sid, r.nonce, r.task)
			}
			last[r.task] = p
		}
	}
	for _, rr := range rootsRecs {
		if rr.err != nil || !strings.HasPrefix(rr.got, "roots:") {
			// fault-free run, the session's listening stream is open and registered, its client
			// answers every roots/list it receives: the answer of the addressed session is the one
			// that must be accepted
			s.Probe("c05.roots_failed")
			what := rr.got
			if rr.err != nil {
				what = rr.err.Error()
			}
			s.Violate("C05|roots-request-failed|"+c05RootsClass(what), "ListRoots inside session %s (stream open, client answering, no fault) failed: %s", rr.se.name, short(what))
			continue
		}
		s.Probe("c05.roots_ok")
		var want []string
		for _, r := range rr.se.roots {
			want = append(want, r.Name+"="+r.URI)
		}
		sort.Strings(want)
		gotList := strings.Split(strings.TrimPrefix(rr.got, "roots:"), ",")
		sort.Strings(gotList)
		if strings.Join(gotList, ",") != strings.Join(want, ",") {
			sig := "C05|roots-wrong"
			if strings.Contains(rr.got, "forged") {
				sig = "C05|forged-answer-accepted"
			}
			s.Violate(sig, "ListRoots inside session %s returned %q; that session's roots are %v (%d forged answers were posted from another session)", rr.se.name, rr.got, want, forged)
		}
	}
	if n := mcp.VerifPendingServerRequests(w.Srv); n != 0 {
		s.Violate("C05|pending-left", "%d server->client requests are still pending after everything has finished", n)
	}
	s.Probe("c05.streamable")
	for _, se := range sess {
		if se.lib != nil {
			se.lib.API.Close()
		} else {
			se.raw.Close()
		}
	}
}

func errWord(err error) string {
	m := err.Error()
	for _, k := range []string{"not initialized", "session not found", "channel full", "no sessions found", "broken pipe"} {
		if strings.Contains(m, k) {
			return strings.ReplaceAll(k, " ", "-")
		}
	}
	return "other"
}

// c05Legacy: the same questions on the legacy SSE server (SendNotification, ListRoots).
func c05Legacy(c *Ctx) {
	s, t := c.S, c.T
	c.SetPlan("server", "legacy-sse")
	w := newWorld(c, "legacy-sse", "srv")
	nSess := 1 + t.Draw(3)
	type ls struct {
		cl    *Client
		roots []mcp.Root
		sid   string
		name  string
	}
	var sess []*ls
	// session ids are only known to the server: capture them through a tool
	w.Reg.RegisterTool(mcp.NewTool("whoami"), func(ctx context.Context, req *mcp.CallToolRequest) (*mcp.CallToolResult, error) {
		se, _ := mcp.GetSessionFromContext(ctx)
		return &mcp.CallToolResult{Content: []mcp.Content{mcp.NewTextContent(se.GetID())}}, nil
	})
	w.Reg.RegisterTool(mcp.NewTool("roots-names"), func(ctx context.Context, req *mcp.CallToolRequest) (*mcp.CallToolResult, error) {
		rctx, cancel := context.WithTimeout(ctx, 45*time.Second)
		defer cancel()
		res, err := w.SSE.ListRoots(rctx)
		if err != nil {
			return &mcp.CallToolResult{Content: []mcp.Content{mcp.NewTextContent("err:" + err.Error())}}, nil
		}
		var names []string
		for _, r := range res.Roots {
			names = append(names, r.Name+"="+r.URI)
		}
		return &mcp.CallToolResult{Content: []mcp.Content{mcp.NewTextContent("roots:" + strings.Join(names, ","))}}, nil
	})
	for i := 0; i < nSess; i++ {
		se := &ls{name: fmt.Sprintf("s%d", i)}
		se.roots = []mcp.Root{{URI: fmt.Sprintf("file:///%s/a", se.name), Name: se.name + "-a"}}
		se.cl = w.newClient()
		se.cl.HTTP.SetRootsProvider(fixedRoots{se.roots})
		if err := initClient(c, se.cl); err != nil {
			s.Violate("C05|init-failed|legacy", "Initialize failed: %v", err)
			return
		}
		ctx, cancel := context.WithTimeout(context.Background(), time.Minute)
		res, err := se.cl.API.CallTool(ctx, callToolReq("whoami", nil))
		cancel()
		if err != nil {
			s.Violate("C05|init-failed|legacy", "whoami failed: %v", err)
			return
		}
		se.sid = textOf(res)
		sess = append(sess, se)
	}
	// the forging peer's session exists before the workload starts (its handshake waits for quiescence)
	var forger *rawPeer
	if t.Bool(60) {
		if fp, err := newRawPeer(c, w, "forger", false); err == nil {
			forger = fp
			defer forger.close()
		}
	}
	s.Settle(10 * time.Millisecond)
	type rec struct {
		nonce, sid string
		err        error
		task       int
	}
	var recs []*rec
	var tasks []*sim.Task
	// burst variant: the peer stops reading for a while and one sender outruns the per-session queue
	burst := t.Bool(25)
	c.SetPlan("burst", burst)
	if burst {
		s.Net.Stall(3 * time.Second)
	}
	for k := 0; k < 1+t.Draw(2); k++ {
		n := 1 + t.Draw(4)
		if burst {
			n = 110 + t.Draw(120)
		}
		tasks = append(tasks, s.Go(fmt.Sprintf("sender%d", k), func() {
			for i := 0; i < n; i++ {
				se := sess[c.T.Draw(len(sess))]
				if burst {
					se = sess[0]
				}
				r := &rec{nonce: c.Nonce("x"), sid: se.sid, task: k}
				r.err = w.SSE.SendNotification(se.sid, "notifications/verif", map[string]interface{}{"nonce": r.nonce})
				c.mu.Lock()
				recs = append(recs, r)
				c.mu.Unlock()
				s.Yield("sender#next")
			}
		}))
	}
	type rootsRec struct {
		se  *ls
		got string
		err error
	}
	var rootsRecs []*rootsRec
	for _, se := range sess {
		if !t.Bool(60) {
			continue
		}
		tasks = append(tasks, s.Go(se.name+"/rootscaller", func() {
			ctx, cancel := context.WithTimeout(context.Background(), 3*time.Minute)
			res, err := se.cl.API.CallTool(ctx, callToolReq("roots-names", nil))
			cancel()
			rr := &rootsRec{se: se, err: err}
			if err == nil {
				rr.got = textOf(res)
			}
			c.mu.Lock()
			rootsRecs = append(rootsRecs, rr)
			c.mu.Unlock()
		}))
	}
	// a forger: another legacy session posts answers with guessed request ids
	if forger != nil {
		{
			nForge := 1 + t.Draw(5)
			tasks = append(tasks, s.Go("forger", func() {
				for i := 0; i < nForge; i++ {
					id := 1 + c.T.Draw(4)
					forger.post(mustJSON(map[string]interface{}{"jsonrpc": "2.0", "id": id, "result": map[string]interface{}{"roots": []interface{}{map[string]interface{}{"uri": "file:///forged", "name": "forged"}}}}))
					if c.T.Bool(50) {
						s.Sleep(time.Millisecond)
					}
				}
			}))
		}
	}
	for _, a := range s.WaitTasks(30*time.Minute, tasks...) {
		s.Violate("C05|stuck|legacy", "%s did not finish", a.Name)
	}
	s.Net.Unstall()
	s.Settle(50 * time.Millisecond)
	// wire: which legacy stream carries which nonce; map stream -> session id through the endpoint event
	streamOf := map[string]string{}
	byStream := map[string][]string{}
	for _, conn := range s.Net.Conns() {
		if conn.Method != "GET" {
			continue
		}
		var p SSEParser
		key := fmt.Sprintf("c%d", conn.ID)
		for _, ev := range p.Feed(conn.Bytes()) {
			if ev.Type == "endpoint" {
				if i := strings.Index(ev.Data, "sessionId="); i >= 0 {
					streamOf[key] = ev.Data[i+len("sessionId="):]
				}
				continue
			}
			var m struct {
				Params struct {
					Nonce string `json:"nonce"`
				} `json:"params"`
			}
			if json.Unmarshal([]byte(ev.Data), &m) == nil && m.Params.Nonce != "" {
				byStream[key] = append(byStream[key], m.Params.Nonce)
			}
		}
	}
	for _, r := range recs {
		n, wrong := 0, ""
		for key, list := range byStream {
			for _, x := range list {
				if x == r.nonce {
					if streamOf[key] == r.sid {
						n++
					} else {
						wrong = streamOf[key]
					}
				}
			}
		}
		if wrong != "" {
			s.Violate("C05|leak|legacy", "notification %s for session %s appeared on the stream of session %s", r.nonce, r.sid, wrong)
		}
		if r.err != nil {
			if !(burst && strings.Contains(r.err.Error(), "channel full")) { // a bounded queue may refuse while the peer does not read
				s.Violate("C05|send-failed|legacy|"+errWord(r.err), "SSEServer.SendNotification to a connected, initialized session failed: %v", r.err)
			}
			if n != 0 {
				s.Probe("c05.legacy_refused_but_delivered")
			}
		} else if n != 1 {
			s.Violate("C05|lost|legacy", "SendNotification(%s) returned success but it is on the session's stream %d times", r.nonce, n)
		}
	}
	// sending order per sender and session
	for key, list := range byStream {
		pos := map[string]int{}
		for i, n := range list {
			pos[n] = i
		}
		last := map[int]int{}
		for _, r := range recs {
			p, ok := pos[r.nonce]
			if !ok || streamOf[key] != r.sid {
				continue
			}
			if lp, seen := last[r.task]; seen && p < lp {
				s.Violate("C05|order|legacy", "session %s: notification %s of sender %d was delivered before an earlier one of the same sender (wire positions %d < %d)", r.sid, r.nonce, r.task, p, lp)
			}
			last[r.task] = p
		}
	}
	if burst {
		s.Probe("c05.legacy_burst")
	}
	for _, rr := range rootsRecs {
		if rr.err != nil || !strings.HasPrefix(rr.got, "roots:") {
			s.Probe("c05.legacy_roots_failed")
			what := rr.got
			if rr.err != nil {
				what = rr.err.Error()
			}
			s.Violate("C05|roots-request-failed|legacy|"+c05RootsClass(what), "ListRoots inside legacy session %s (stream open, client answering, no fault) failed: %s", rr.se.name, short(what))
			continue
		}
		s.Probe("c05.legacy_roots_ok")
		want := rr.se.roots[0].Name + "=" + rr.se.roots[0].URI
		if strings.TrimPrefix(rr.got, "roots:") != want {
			sig := "C05|roots-wrong|legacy"
			if strings.Contains(rr.got, "forged") {
				sig = "C05|forged-answer-accepted|legacy"
			}
			s.Violate(sig, "ListRoots inside session %s returned %q, want %q", rr.se.name, rr.got, want)
		}
	}
	if n := mcp.VerifPendingServerRequests(w.SSE); n != 0 {
		s.Violate("C05|pending-left|legacy", "%d server->client requests still pending", n)
	}
	s.Probe("c05.legacy")
	for _, se := range sess {
		se.cl.API.Close()
	}
}

func c05RootsClass(m string) string {
	switch {
	case strings.Contains(m, "timeout"), strings.Contains(m, "deadline"):
		return "timeout"
	case strings.Contains(m, "no active SSE"), strings.Contains(m, "not found"):
		return "no-stream"
	}
	return "other"
}

// c05Stdio: server-issued requests on the stdio server.  Every client is a process of its own (one
// session per server instance); tool handlers ask their session for its roots, some of them give up
// (cancel the context) around the instant the client's answer travels back.  Oracle: no goroutine
// of the server panics (the process would die), a request that was not given up returns the roots
// of its own session, a request that was given up returns those roots or the context's error,
// nothing stays pending, and the session keeps serving afterwards.
func c05Stdio(c *Ctx) {
	s, t := c.S, c.T
	c.SetPlan("server", "stdio")
	w := newWorld(c, "stdio", "srv")
	asked := newCounter()
	w.register(func(r registrar) {
		r.RegisterTool(mcp.NewTool("roots-names", mcp.WithString("key"), mcp.WithString("client"), mcp.WithNumber("giveup")), func(ctx context.Context, req *mcp.CallToolRequest) (*mcp.CallToolResult, error) {
			key, _ := req.Params.Arguments["key"].(string)
			client, _ := req.Params.Arguments["client"].(string)
			giveup, _ := req.Params.Arguments["giveup"].(float64)
			rctx, cancel := context.WithTimeout(ctx, 45*time.Second)
			defer cancel()
			if giveup > 0 {
				base := asked.Get(client)
				s.Go("giveup-"+key, func() {
					// wait until the client has been asked, then a few more steps: the answer is on its way
					for i := 0; i < 3000 && asked.Get(client) == base; i++ {
						s.Yield("giveup#asked")
						if i%50 == 49 {
							s.Sleep(time.Millisecond)
						}
					}
					for i := 0; i < int(giveup)-1; i++ {
						s.Yield("giveup#wait")
					}
					cancel()
					s.Probe("c05.stdio_gave_up")
				})
			}
			srv, _ := mcp.GetServerFromContext(ctx).(*mcp.StdioServer)
			if srv == nil {
				return &mcp.CallToolResult{Content: []mcp.Content{mcp.NewTextContent("err:no stdio server in context")}}, nil
			}
			res, err := srv.ListRoots(rctx)
			if err != nil {
				return &mcp.CallToolResult{Content: []mcp.Content{mcp.NewTextContent("err:" + err.Error())}}, nil
			}
			var names []string
			for _, r := range res.Roots {
				names = append(names, r.Name+"="+r.URI)
			}
			return &mcp.CallToolResult{Content: []mcp.Content{mcp.NewTextContent("roots:" + strings.Join(names, ","))}}, nil
		})
		registerEcho(c, r, w.Count)
	})
	nClients := 1 + t.Draw(2)
	type callT struct {
		client int
		key    string
		giveup int
		got    string
		err    error
	}
	var calls []*callT
	var tasks []*sim.Task
	var clients []*Client
	for k := 0; k < nClients; k++ {
		cl := w.newClient()
		cl.Link.FromSrv.ShortRead = t.Pick(0, 20)
		clients = append(clients, cl)
		cl.Stdio.SetRootsProvider(countingAll{client: k, asked: asked, s: s})
		if err := initClient(c, cl); err != nil {
			s.Violate("C05|init-failed|stdio", "Initialize failed: %v", err)
			return
		}
		nCallers := 1 + t.Draw(2)
		for j := 0; j < nCallers; j++ {
			nOps := 1 + t.Draw(3)
			tasks = append(tasks, s.Go(fmt.Sprintf("cl%d/caller%d", k, j), func() {
				for i := 0; i < nOps; i++ {
					ct := &callT{client: k, key: c.Nonce("k")}
					if c.T.Bool(50) {
						ct.giveup = 1 + c.T.Draw(14)
					}
					c.mu.Lock()
					calls = append(calls, ct)
					c.mu.Unlock()
					ctx, cancel := context.WithTimeout(context.Background(), 3*time.Minute)
					res, err := cl.API.CallTool(ctx, callToolReq("roots-names", map[string]interface{}{"key": ct.key, "client": fmt.Sprintf("client%d", k), "giveup": float64(ct.giveup)}))
					cancel()
					ct.err = err
					if err == nil {
						ct.got = textOf(res)
					}
				}
			}))
		}

	}
	for _, a := range s.WaitTasks(30*time.Minute, tasks...) {
		s.Violate("C05|stuck|stdio", "%s did not finish", a.Name)
	}
	s.Settle(20 * time.Millisecond)
	for _, ct := range calls {
		want := fmt.Sprintf("roots:client%d=file:///client%d", ct.client, ct.client)
		switch {
		case ct.err != nil:
			s.Violate("C05|roots-request-failed|stdio|call-"+errClass(ct.err), "the tool call that asks its session for its roots failed: %v (gave up: %v)", ct.err, ct.giveup > 0)
		case ct.got == want:
			s.Probe("c05.stdio_roots_ok")
		case ct.giveup > 0 && strings.HasPrefix(ct.got, "err:") && strings.Contains(ct.got, "context canceled"):
			s.Probe("c05.stdio_roots_given_up")
		default:
			s.Violate("C05|roots-wrong|stdio", "ListRoots inside the session of client %d returned %q, want %q (gave up: %v)", ct.client, short(ct.got), want, ct.giveup > 0)
		}
	}
	for k, cl := range clients {
		if n := mcp.VerifPendingServerRequests(cl.Link.Srv); n != 0 {
			s.Violate("C05|pending-left|stdio", "%d server->client requests are still pending in the server of client %d after everything has finished", n, k)
		}
		// the session still serves
		nonce := c.Nonce("after")
		ctx, cancel := context.WithTimeout(context.Background(), time.Minute)
		res, err := cl.API.CallTool(ctx, callToolReq("echo", map[string]interface{}{"nonce": nonce}))
		cancel()
		if err != nil || textOf(res) != "r:"+nonce {
			s.Violate("C05|server-dead-after-roots|stdio", "after the roots requests the server of client %d no longer answers: %v", k, err)
		}
		cl.API.Close()
	}
	s.Probe("c05.stdio")
}

// countingAll is the roots provider of one stdio client: fixed roots naming the client, and a count
// of how often the client was asked (so that a canceller knows the answer is on its way).
type countingAll struct {
	client int
	asked  *Counter
	s      *sim.Sim
}

func (f countingAll) GetRoots() []mcp.Root {
	f.asked.Inc(fmt.Sprintf("client%d", f.client))
	f.s.Yield("roots-provider")
	return []mcp.Root{{URI: fmt.Sprintf("file:///client%d", f.client), Name: fmt.Sprintf("client%d", f.client)}}
}
