package props

import (
	"encoding/json"
	"fmt"
	"sort"
	"strings"
)

// ---- generator of valid requests and of their structural mutations ---------------------------------

// genInput is one input for a server together with what the protocol says about it.
type genInput struct {
	Desc   string
	Raw    []byte
	Method string // method of the base message ("" if destroyed)
	// Class is the reference classification of the *input*, written from JSON-RPC 2.0 / MCP:
	//   valid            - a well-formed request the server serves
	//   unknown-method   - well-formed envelope, method not in the protocol
	//   bad-params       - well-formed envelope, parameters missing or of the wrong shape
	//   not-json         - not parsable as JSON
	//   bad-envelope     - JSON, but not a request/notification/response object
	//   notification     - well-formed notification
	//   response         - a response to a request the server never sent
	//   lenient          - irregular, but a server may either serve or refuse it
	Class     string
	IsRequest bool   // object with string/number id and string method: an answer is owed
	ID        string // raw id
}

func baseMessages(nonce string) []map[string]interface{} {
	req := func(method string, params interface{}) map[string]interface{} {
		m := map[string]interface{}{"jsonrpc": "2.0", "id": nonce + "-" + method, "method": method}
		if params != nil {
			m["params"] = params
		}
		return m
	}
	return []map[string]interface{}{
		req("initialize", initParams("2025-03-26")),
		req("ping", nil),
		req("tools/list", map[string]interface{}{}),
		req("tools/call", map[string]interface{}{"name": "echo", "arguments": map[string]interface{}{"nonce": nonce}}),
		req("prompts/list", nil),
		req("prompts/get", map[string]interface{}{"name": "echo", "arguments": map[string]interface{}{"nonce": nonce}}),
		req("resources/list", nil),
		req("resources/read", map[string]interface{}{"uri": "res://echo", "arguments": map[string]interface{}{"nonce": nonce}}),
	}
}

var typeLattice = []struct {
	name string
	val  interface{}
}{
	{"null", nil}, {"true", true}, {"zero", 0}, {"neg", -1}, {"frac", 1.5}, {"big", 9007199254740993.0}, {"emptystr", ""},
	{"str", "x"}, {"emptyarr", []interface{}{}}, {"arr", []interface{}{1, "a"}}, {"emptyobj", map[string]interface{}{}}, {"obj", map[string]interface{}{"a": 1}},
}

// requiredParam says which parameter paths a method cannot do without (from the MCP schema).
var requiredParam = map[string][]string{
	"initialize":     {"params", "params.protocolVersion"},
	"tools/call":     {"params", "params.name"},
	"prompts/get":    {"params", "params.name"},
	"resources/read": {"params", "params.uri"},
}

func deepCopy(v interface{}) interface{} {
	b, _ := json.Marshal(v)
	var out interface{}
	json.Unmarshal(b, &out)
	return out
}

func paths(v interface{}, prefix string, out *[]string) {
	if m, ok := v.(map[string]interface{}); ok {
		keys := make([]string, 0, len(m))
		for k := range m {
			keys = append(keys, k)
		}
		sort.Strings(keys)
		for _, k := range keys {
			p := k
			if prefix != "" {
				p = prefix + "." + k
			}
			*out = append(*out, p)
			paths(m[k], p, out)
		}
	}
}

func setPath(root map[string]interface{}, path string, val interface{}, remove bool) {
	parts := strings.Split(path, ".")
	cur := root
	for _, k := range parts[:len(parts)-1] {
		next, ok := cur[k].(map[string]interface{})
		if !ok {
			return
		}
		cur = next
	}
	if remove {
		delete(cur, parts[len(parts)-1])
	} else {
		cur[parts[len(parts)-1]] = val
	}
}

// classify is the reference classification of a mutated base message.
func classify(method, path, mutation string, val interface{}) string {
	switch path {
	case "jsonrpc":
		return "lenient" // many servers do not insist on the version member; refusing is fine too
	case "id":
		if mutation == "remove" {
			return "notification-like" // a request method sent as a notification: no answer is owed
		}
		switch val.(type) {
		case string:
			return "valid"
		case int, float64:
			return "valid"
		case nil:
			return "lenient"
		}
		return "lenient" // an id of another JSON type: invalid JSON-RPC, but a lenient server may echo it
	case "method":
		if mutation == "remove" {
			// an id but no method: reads as a (malformed) response to a request never sent;
			// accepting it without any effect is tolerated (weaker reading, DESIGN.md C06)
			return "response"
		}
		if s, ok := val.(string); ok {
			if s == "" {
				return "response"
			}
			return "unknown-method"
		}
		if val == nil {
			return "response" // "method": null reads like an absent method
		}
		return "bad-envelope"
	}
	for _, rp := range requiredParam[method] {
		if path == rp {
			if mutation == "remove" {
				return "bad-params"
			}
			if path == "params" {
				if _, ok := val.(map[string]interface{}); ok && len(val.(map[string]interface{})) > 0 {
					return "bad-params" // an object without the required members
				}
				return "bad-params"
			}
			if s, ok := val.(string); ok {
				if s == "" && method != "initialize" {
					return "lenient"
				}
				return "lenient" // a string, but not a registered name / supported version: not-found or default
			}
			return "bad-params"
		}
	}
	if path == "params" {
		switch val.(type) {
		case map[string]interface{}:
			return "valid"
		case nil:
			if mutation == "remove" || mutation == "null" {
				return "valid"
			}
		}
		if mutation == "remove" {
			return "valid"
		}
		return "lenient" // params of a non-structured type for a method that needs none
	}
	if path == "params.arguments" {
		if mutation == "remove" {
			return "valid"
		}
		switch val.(type) {
		case map[string]interface{}, nil:
			return "valid"
		}
		if method == "tools/call" {
			return "bad-params"
		}
		return "lenient"
	}
	return "lenient"
}

// genMutations enumerates field x {remove, retype over the JSON type lattice} for every base message.
func genMutations(nonce string) []genInput {
	var out []genInput
	for _, base := range baseMessages(nonce) {
		method := base["method"].(string)
		raw, _ := json.Marshal(base)
		out = append(out, genInput{Desc: "valid " + method, Raw: raw, Method: method, Class: "valid", IsRequest: true, ID: string(mustJSON(base["id"]))})
		var ps []string
		paths(base, "", &ps)
		for _, p := range ps {
			muts := []struct {
				name   string
				val    interface{}
				remove bool
			}{{"remove", nil, true}}
			for _, tl := range typeLattice {
				muts = append(muts, struct {
					name   string
					val    interface{}
					remove bool
				}{tl.name, tl.val, false})
			}
			for _, m := range muts {
				msg := deepCopy(base).(map[string]interface{})
				setPath(msg, p, m.val, m.remove)
				b, _ := json.Marshal(msg)
				in := genInput{Desc: fmt.Sprintf("%s: %s %s", method, p, m.name), Raw: b, Method: method, Class: classify(method, p, m.name, m.val)}
				if p == "method" {
					in.Method = ""
					if s, ok := m.val.(string); ok && !m.remove {
						in.Method = s
					}
				}
				id, hasID := msg["id"]
				_, methodIsString := msg["method"].(string)
				switch id.(type) {
				case string, float64:
					in.IsRequest = hasID && methodIsString && msg["method"] != ""
					in.ID = string(mustJSON(id))
				}
				out = append(out, in)
			}
		}
	}
	return out
}

// genGarbage are inputs that are not (single) JSON-RPC objects at all.
func genGarbage(nonce string) []genInput {
	deep := strings.Repeat("[", 3000) + strings.Repeat("]", 3000)
	deepObj := strings.Repeat(`{"a":`, 2000) + "1" + strings.Repeat("}", 2000)
	big := `{"jsonrpc":"2.0","id":"` + nonce + `-big","method":"tools/call","params":{"name":"echo","arguments":{"nonce":"` + strings.Repeat("A", 300000) + `"}}}`
	g := []genInput{
		{Desc: "empty body", Raw: []byte(""), Class: "lenient"},
		{Desc: "truncated json", Raw: []byte(`{"jsonrpc":"2.0","id":1,"method":"pi`), Class: "not-json"},
		{Desc: "garbage bytes", Raw: []byte("\x00\xff\xfe{{{]]"), Class: "not-json"},
		{Desc: "plain text", Raw: []byte("hello"), Class: "not-json"},
		{Desc: "json string", Raw: []byte(`"ping"`), Class: "bad-envelope"},
		{Desc: "json number", Raw: []byte(`42`), Class: "bad-envelope"},
		{Desc: "json null", Raw: []byte(`null`), Class: "bad-envelope"},
		{Desc: "empty array", Raw: []byte(`[]`), Class: "bad-envelope"},
		{Desc: "batch array", Raw: []byte(`[{"jsonrpc":"2.0","id":"` + nonce + `-b1","method":"ping"},{"jsonrpc":"2.0","id":"` + nonce + `-b2","method":"ping"}]`), Class: "lenient"},
		{Desc: "empty object", Raw: []byte(`{}`), Class: "bad-envelope"},
		{Desc: "deeply nested array", Raw: []byte(deep), Class: "bad-envelope"},
		{Desc: "deeply nested object", Raw: []byte(deepObj), Class: "bad-envelope"},
		{Desc: "very large request", Raw: []byte(big), Class: "valid", Method: "tools/call", IsRequest: true, ID: `"` + nonce + `-big"`},
		{Desc: "duplicate keys", Raw: []byte(`{"jsonrpc":"2.0","id":"` + nonce + `-dup","id":7,"method":"ping","method":"tools/list"}`), Class: "lenient"},
		{Desc: "unknown method", Raw: rpcReq(nonce+"-unk", "verif/does-not-exist", nil), Class: "unknown-method", Method: "verif/does-not-exist", IsRequest: true, ID: `"` + nonce + `-unk"`},
		{Desc: "unknown notification", Raw: rpcNotif("notifications/verif-unknown", map[string]interface{}{"a": 1}), Class: "notification"},
		{Desc: "response never asked for", Raw: mustJSON(map[string]interface{}{"jsonrpc": "2.0", "id": 987654, "result": map[string]interface{}{"roots": []interface{}{}}}), Class: "response"},
		{Desc: "error response never asked for", Raw: mustJSON(map[string]interface{}{"jsonrpc": "2.0", "id": "nope", "error": map[string]interface{}{"code": -1, "message": "x"}}), Class: "response"},
		{Desc: "response with odd id", Raw: []byte(`{"jsonrpc":"2.0","id":{"a":1},"result":{}}`), Class: "response"},
		{Desc: "response without result", Raw: []byte(`{"jsonrpc":"2.0","id":5}`), Class: "response"},
		{Desc: "tools/call unregistered", Raw: rpcReq(nonce+"-nf", "tools/call", map[string]interface{}{"name": "no-such-tool"}), Class: "lenient", Method: "tools/call", IsRequest: true, ID: `"` + nonce + `-nf"`},
		{Desc: "integer id max safe", Raw: []byte(`{"jsonrpc":"2.0","id":9007199254740991,"method":"ping"}`), Class: "valid", Method: "ping", IsRequest: true, ID: "9007199254740991"},
		{Desc: "integer id negative", Raw: []byte(`{"jsonrpc":"2.0","id":-7,"method":"ping"}`), Class: "valid", Method: "ping", IsRequest: true, ID: "-7"},
		{Desc: "unicode id", Raw: []byte(`{"jsonrpc":"2.0","id":"ключ-` + nonce + `","method":"ping"}`), Class: "valid", Method: "ping", IsRequest: true, ID: `"ключ-` + nonce + `"`},
	}
	return g
}
