package props

import (
	"context"
	"encoding/json"
	"fmt"
	"reflect"
	"sort"
	"strings"
	"time"

	mcp "trpc.group/trpc-go/trpc-mcp-go"
	"verif/sim"
)

// C14 — all transports answer alike (differential, input-sampled inside the simulator).

func init() {
	register(&Scenario{Prop: "C14", Run: runC14, Opts: sim.Options{MaxSteps: 400000, MaxSimTime: 30 * time.Minute}})
}

type c14Outcome struct {
	Kind   string      // result | error | http | none
	Code   int         // JSON-RPC error code or HTTP status
	Result interface{} // normalised result
}

func (o c14Outcome) String() string {
	switch o.Kind {
	case "result":
		return "result " + short(jsonOf(o.Result))
	case "error":
		return fmt.Sprintf("error %d", o.Code)
	case "http":
		return fmt.Sprintf("HTTP %d", o.Code)
	}
	return "no answer"
}

// normaliseResult sorts listed items by name/uri (order of listed items is free).
func normaliseResult(v interface{}) interface{} {
	m, ok := v.(map[string]interface{})
	if !ok {
		return v
	}
	for _, key := range []string{"tools", "prompts", "resources", "resourceTemplates"} {
		if arr, ok := m[key].([]interface{}); ok {
			sort.SliceStable(arr, func(i, j int) bool {
				return fmt.Sprint(keyOf(arr[i])) < fmt.Sprint(keyOf(arr[j]))
			})
		}
	}
	return m
}

func keyOf(v interface{}) interface{} {
	if m, ok := v.(map[string]interface{}); ok {
		if n, ok := m["name"]; ok {
			return n
		}
		return m["uri"]
	}
	return v
}

func runC14(c *Ctx) {
	s, t := c.S, c.T
	s.Net.Faults = sim.NetFaults{ShortRead: t.Pick(0, 20)}
	worlds := map[string]*World{}
	peers := map[string]*rawPeer{}
	nPrompts, nRes := t.Draw(2), t.Draw(2)
	for _, mode := range allModes {
		w := newWorld(c, mode, "srv-"+mode)
		w.register(func(r registrar) {
			registerC03(c, r, w.Count)
			_ = nPrompts
			_ = nRes
		})
		worlds[mode] = w
		p, err := newRawPeer(c, w, "peer-"+mode, true)
		if err != nil {
			s.Violate("C14|peer-setup|"+mode, "%v", err)
			return
		}
		peers[mode] = p
	}
	// the request sequence: well-formed envelopes (string or integer id), parameters valid or not
	var inputs []genInput
	for _, in := range append(genMutations("m"), genOutcomes("o")...) {
		switch in.Method {
		case "initialize", "ping", "tools/list", "tools/call", "prompts/list", "prompts/get", "resources/list", "resources/read":
		default:
			continue
		}
		if !in.IsRequest || strings.Contains(in.Desc, ": jsonrpc ") || strings.Contains(in.Desc, ": method ") || strings.Contains(in.Desc, ": id ") {
			continue
		}
		if strings.Contains(in.Desc, "not encodable") {
			continue // a result no transport can encode is C03's business
		}
		inputs = append(inputs, in)
	}
	const batch = 20
	start := (int(c.Run) * batch) % len(inputs)
	seq := []genInput{inputs[0]} // a valid initialize first, everywhere
	for i := 0; i < batch; i++ {
		seq = append(seq, inputs[(start+i)%len(inputs)])
	}
	var descs []string
	for _, in := range seq {
		descs = append(descs, in.Desc)
	}
	c.SetPlan("sequence", descs)
	c.SetPlan("pool", len(inputs))
	outcomes := map[string][]c14Outcome{}
	var tasks []*sim.Task
	for _, mode := range allModes {
		p := peers[mode]
		res := make([]c14Outcome, len(seq))
		outcomes[mode] = res
		tasks = append(tasks, s.Go("driver-"+mode, func() {
			for i, in := range seq {
				r := p.exchange(in.Raw, nil)
				if i == 0 && p.kind == "streamable" {
					p.sid = r.Header.Get("Mcp-Session-Id")
					p.exchange(rpcNotif("notifications/initialized", nil), nil)
				} else if i == 0 {
					p.exchange(rpcNotif("notifications/initialized", nil), nil)
				}
				o := c14Outcome{Kind: "none"}
				if r.Err != nil {
					o = c14Outcome{Kind: "none"}
				} else {
					if r.Status >= 400 {
						o = c14Outcome{Kind: "http", Code: r.Status}
					}
					for _, f := range r.Frames {
						fi, _ := parseFrame(f)
						if fi.ID != in.ID {
							continue
						}
						if fi.Kind == "error" {
							o = c14Outcome{Kind: "error", Code: fi.ErrCode}
						} else if fi.Kind == "response" {
							var v interface{}
							json.Unmarshal(fi.Result, &v)
							o = c14Outcome{Kind: "result", Result: normaliseResult(v)}
						}
					}
				}
				res[i] = o
			}
		}))
	}
	for _, a := range s.WaitTasks(25*time.Minute, tasks...) {
		s.Violate("C14|stuck", "%s did not finish", a.Name)
	}
	ref := "json"
	for _, mode := range allModes {
		for _, o := range outcomes[mode] {
			s.Probe("c14.outcome." + mode + "." + o.Kind)
		}
	}
	for i, in := range seq {
		base := outcomes[ref][i]
		for _, mode := range allModes {
			if mode == ref {
				continue
			}
			o := outcomes[mode][i]
			same := o.Kind == base.Kind
			if same {
				switch o.Kind {
				case "error":
					same = o.Code == base.Code
				case "result":
					same = reflect.DeepEqual(o.Result, base.Result)
				case "http":
					same = true // the class (refused at HTTP level) matters, not the exact status
				}
			}
			// an HTTP-level refusal on one transport and a JSON-RPC error on another are both "an error";
			// the statement asks for the same *code* only where both answer in JSON-RPC
			if !same && (o.Kind == "http" && base.Kind == "error" || o.Kind == "error" && base.Kind == "http") {
				same = true
			}
			if !same {
				what := in.Method + "|" + in.Class
				if in.Class == "lenient" || in.Class == "bad-params" {
					what = in.Method + "|" + in.Class + "|" + strings.SplitN(in.Desc, ": ", 2)[len(strings.SplitN(in.Desc, ": ", 2))-1]
				}
				s.Violate(fmt.Sprintf("C14|diverge|%s|%s-vs-%s|%s~%s", what, ref, mode, base.Kind, o.Kind),
					"request %q %s: %s answers [%s], %s answers [%s]", in.Desc, short(string(in.Raw)), ref, base, mode, o)
			}
		}
	}
	for _, p := range peers {
		p.close()
	}
	// the three library clients return equal values for equal server answers
	type got struct {
		tools   interface{}
		call    interface{}
		callErr string
		prompt  interface{}
		res     interface{}
	}
	results := map[string]*got{}
	for _, mode := range []string{"json", "legacy-sse", "stdio"} {
		cl := worlds[mode].newClient()
		if err := initClient(c, cl); err != nil {
			s.Violate("C14|client-init|"+mode, "%v", err)
			continue
		}
		g := &got{}
		ctx, cancel := context.WithTimeout(context.Background(), 5*time.Minute)
		if lt, err := cl.API.ListTools(ctx, &mcp.ListToolsRequest{}); err == nil {
			var names []string
			for _, x := range lt.Tools {
				names = append(names, x.Name+"|"+x.Description)
			}
			sort.Strings(names)
			g.tools = names
		}
		if r, err := cl.API.CallTool(ctx, callToolReq("rich", nil)); err == nil {
			g.call = normJSON(r)
		} else {
			g.callErr = errClass(err)
		}
		if r, err := cl.API.GetPrompt(ctx, getPromptReq("echo", map[string]string{"nonce": "x"})); err == nil {
			g.prompt = normJSON(r)
		}
		if r, err := cl.API.ReadResource(ctx, readResourceReq("res://blob", nil)); err == nil {
			g.res = normJSON(r)
		}
		cancel()
		cl.API.Close()
		results[mode] = g
	}
	if a, b := results["json"], results["legacy-sse"]; a != nil && b != nil && !reflect.DeepEqual(a, b) {
		s.Violate("C14|clients-differ|streamable-vs-sse", "Streamable client returned %s, legacy SSE client %s", short(jsonOf(fmt.Sprint(*a))), short(jsonOf(fmt.Sprint(*b))))
	}
	if a, b := results["json"], results["stdio"]; a != nil && b != nil && !reflect.DeepEqual(a, b) {
		s.Violate("C14|clients-differ|streamable-vs-stdio", "Streamable client returned %s, stdio client %s", short(fmt.Sprint(*a)), short(fmt.Sprint(*b)))
	}
}
