package props

import (
	"bytes"
	"context"
	"fmt"
	"math"
	"strings"
	"time"

	mcp "trpc.group/trpc-go/trpc-mcp-go"
	"verif/sim"
)

// C17 — retry: bounded attempts, only transient failures, capped back-off, prompt cancel.

func init() {
	register(&Scenario{Prop: "C17", Run: runC17, Opts: sim.Options{MaxSteps: 60000, MaxSimTime: 3 * time.Hour}})
}

type c17Cfg struct {
	Set     bool          `json:"set"`
	Simple  bool          `json:"simple"`
	Retries int           `json:"max_retries"`
	Initial time.Duration `json:"initial"`
	Factor  float64       `json:"factor"`
	Max     time.Duration `json:"max"`
}

// clamp is the documented range rule, written from the statement.
func (c c17Cfg) clamp() c17Cfg {
	o := c
	o.Retries = int(math.Max(0, math.Min(10, float64(c.Retries))))
	if o.Initial < time.Millisecond {
		o.Initial = time.Millisecond
	}
	if o.Initial > 30*time.Second {
		o.Initial = 30 * time.Second
	}
	if o.Factor < 1 {
		o.Factor = 1
	}
	if o.Factor > 10 {
		o.Factor = 10
	}
	if o.Max < o.Initial {
		o.Max = o.Initial
	}
	if o.Max > 5*time.Minute {
		o.Max = 5 * time.Minute
	}
	return o
}

func (c c17Cfg) backoff(k int) time.Duration { // wait after the k-th attempt (k>=1)
	d := float64(c.Initial) * math.Pow(c.Factor, float64(k-1))
	if d > float64(c.Max) {
		return c.Max
	}
	return time.Duration(d)
}

type c17Outcome struct {
	Kind   string        `json:"kind"` // refuse | reset | eof | timeout | status
	Status int           `json:"status,omitempty"`
	Body   string        `json:"body,omitempty"`
	Delay  time.Duration `json:"delay,omitempty"`
}

// transient is the statement's list: refused/reset/timeout, EOF, 408, 409, 429, 5xx.
func (o c17Outcome) transient() bool {
	switch o.Kind {
	case "refuse", "reset", "eof", "timeout":
		return true
	case "status":
		return o.Status == 408 || o.Status == 409 || o.Status == 429 || (o.Status >= 500 && o.Status <= 599)
	}
	return false
}

func (o c17Outcome) String() string {
	if o.Kind == "status" {
		return fmt.Sprintf("status-%d", o.Status)
	}
	return o.Kind
}

// c17BodyMentionsTransient: the body text itself contains something that reads like a transient
// failure (a 5xx/408/409/429 number followed by a space, or a network error phrase).
func c17BodyMentionsTransient(body string) bool {
	b := strings.ToLower(body)
	for _, k := range []string{"500 ", "501 ", "502 ", "503 ", "504 ", "408 ", "409 ", "429 ", "connection reset", "connection refused", "i/o timeout"} {
		if strings.Contains(b, k) {
			return true
		}
	}
	return false
}

var c17Statuses = []int{400, 401, 403, 404, 405, 408, 409, 413, 422, 429, 500, 501, 502, 503, 504, 507, 511}
var c17Bodies = []string{"", "error", "bad request", "limit of 500 items exceeded", "retry in 503 ms", "upstream said: connection reset"}

func runC17(c *Ctx) {
	s, t := c.S, c.T
	kind := []string{"streamable", "legacy-sse"}[t.Draw(2)]
	mode := "json"
	if kind == "legacy-sse" {
		mode = "legacy-sse"
	} else if t.Bool(30) {
		mode = "post-sse"
	}
	cfg := c17Cfg{Set: t.Bool(85)}
	if cfg.Set {
		cfg.Simple = t.Bool(15)
		cfg.Retries = t.Pick(-1, 0, 1, 2, 3, 3, 10, 11)
		if cfg.Simple {
			cfg.Initial, cfg.Factor, cfg.Max = 500*time.Millisecond, 2, 8*time.Second
		} else {
			cfg.Initial = []time.Duration{0, time.Millisecond, 100 * time.Millisecond, 7 * time.Second, 30 * time.Second, 31 * time.Second}[t.Draw(6)]
			cfg.Factor = []float64{0.5, 1, 1.5, 2, 10, 11}[t.Draw(6)]
			cfg.Max = []time.Duration{0, 50 * time.Millisecond, time.Second, 5 * time.Minute, 6 * time.Minute}[t.Draw(5)]
		}
	}
	eff := cfg.clamp()
	c.SetPlan("client", kind)
	c.SetPlan("mode", mode)
	c.SetPlan("config", cfg)
	// range clamping and idempotence through the re-exported Validate
	if cfg.Set {
		in := mcp.VerifRetryConfig{MaxRetries: cfg.Retries, InitialBackoff: cfg.Initial, BackoffFactor: cfg.Factor, MaxBackoff: cfg.Max}
		v1 := mcp.VerifRetryValidate(in)
		v2 := mcp.VerifRetryValidate(v1)
		if v1 != v2 {
			s.Violate("C17|clamp-not-idempotent", "Validate(%+v) = %+v but Validate of that = %+v", in, v1, v2)
		}
		want := mcp.VerifRetryConfig{MaxRetries: eff.Retries, InitialBackoff: eff.Initial, BackoffFactor: eff.Factor, MaxBackoff: eff.Max}
		if v1 != want {
			s.Violate("C17|clamp-range", "Validate(%+v) = %+v, the documented ranges give %+v", in, v1, want)
		}
	}
	// outcome script
	maxLen := 1
	if cfg.Set {
		maxLen = eff.Retries + 2
	}
	n := t.Draw(maxLen + 1)
	var script []c17Outcome
	for i := 0; i < n; i++ {
		var o c17Outcome
		switch t.Draw(6) {
		case 0:
			o.Kind = "refuse"
		case 1:
			o.Kind = "reset"
		case 2:
			o.Kind = "eof"
		case 3:
			o.Kind = "timeout"
			o.Delay = time.Duration(1+t.Draw(20)) * time.Second
		default:
			o.Kind = "status"
			o.Status = c17Statuses[t.Draw(len(c17Statuses))]
			o.Body = c17Bodies[t.Draw(len(c17Bodies))]
		}
		script = append(script, o)
	}
	toolExists := t.Bool(70)
	c.SetPlan("script", script)
	c.SetPlan("final", map[bool]string{true: "success", false: "json-rpc error answer"}[toolExists])

	w := newWorld(c, mode, "srv")
	if toolExists {
		registerEcho(c, w.Reg, w.Count)
	}
	var opts []mcp.ClientOption
	if cfg.Set {
		if cfg.Simple {
			opts = append(opts, mcp.WithSimpleRetry(cfg.Retries))
		} else {
			opts = append(opts, mcp.WithRetry(mcp.RetryConfig{MaxRetries: cfg.Retries, InitialBackoff: cfg.Initial, BackoffFactor: cfg.Factor, MaxBackoff: cfg.Max}))
		}
	}
	cl := w.newClient(opts...)
	if got, ok := mcp.VerifClientRetryConfig(cl.HTTP); ok != cfg.Set {
		s.Violate("C17|config-presence", "retry option set=%v but the client has a retry config=%v", cfg.Set, ok)
	} else if ok {
		want := mcp.VerifRetryConfig{MaxRetries: eff.Retries, InitialBackoff: eff.Initial, BackoffFactor: eff.Factor, MaxBackoff: eff.Max}
		if got != want {
			s.Violate("C17|client-config-clamp", "client ended up with %+v, documented clamping of %+v gives %+v", got, cfg, want)
		}
	}
	// other clients of the same process, configured afterwards with other retry settings, are none of
	// this client's business: its bound and its waits stay what its own option said
	if t.Bool(35) {
		others := 1 + t.Draw(2)
		for i := 0; i < others; i++ {
			var o mcp.ClientOption
			switch t.Draw(3) {
			case 0:
				o = mcp.WithSimpleRetry([]int{0, 1, 5, 9}[t.Draw(4)])
			case 1:
				o = mcp.WithRetry(mcp.RetryConfig{MaxRetries: 1 + t.Draw(8), InitialBackoff: time.Duration(1+t.Draw(900)) * time.Millisecond, BackoffFactor: 1 + float64(t.Draw(40))/10, MaxBackoff: time.Duration(1+t.Draw(100)) * time.Second})
			default:
				o = mcp.WithSimpleRetry(3)
			}
			other := w.newClient(o)
			defer other.API.Close()
		}
		c.SetPlan("other_clients_configured_later", others)
		if got, ok := mcp.VerifClientRetryConfig(cl.HTTP); ok && cfg.Set {
			want := mcp.VerifRetryConfig{MaxRetries: eff.Retries, InitialBackoff: eff.Initial, BackoffFactor: eff.Factor, MaxBackoff: eff.Max}
			if got != want {
				s.Violate("C17|client-config-changed-by-another-client", "after %d other clients were configured the first client's retry configuration is %+v, its own option gave %+v", others, got, want)
			}
		}
	}
	if err := initClient(c, cl); err != nil {
		s.Violate("C17|init-failed|"+mode, "Initialize failed: %v", err)
		return
	}
	nonce := c.Nonce("retry")
	type attempt struct {
		start, end time.Duration
		out        *c17Outcome // nil = reached the server
	}
	var attempts []*attempt
	s.Net.Script = func(conn *sim.Conn) *sim.Outcome {
		if !bytes.Contains(conn.ReqBody, []byte(nonce)) {
			return nil
		}
		k := len(attempts)
		a := &attempt{start: s.Now(), end: s.Now()}
		attempts = append(attempts, a)
		if k >= len(script) {
			return nil
		}
		o := script[k]
		a.out = &o
		a.end = a.start + o.Delay
		return &sim.Outcome{Kind: o.Kind, Status: o.Status, Body: o.Body, Delay: o.Delay}
	}
	// reference timeline (from the statement) to place the cancellation
	var timeline []time.Duration // expected start times of attempts relative to call start
	{
		now := time.Duration(0)
		maxAttempts := 1
		if cfg.Set {
			maxAttempts = eff.Retries + 1
		}
		for k := 1; k <= maxAttempts; k++ {
			timeline = append(timeline, now)
			if k-1 >= len(script) || !script[k-1].transient() {
				break
			}
			now += script[k-1].Delay
			if k < maxAttempts {
				now += eff.backoff(k)
			}
		}
	}
	cancelMode := "none"
	var cancelAt time.Duration = -1
	if len(timeline) > 1 && t.Bool(45) {
		k := 1 + t.Draw(len(timeline)-1) // cancel relative to the wait before attempt k+1
		waitEnd := timeline[k]
		waitStart := waitEnd - eff.backoff(k)
		switch t.Draw(3) {
		case 0:
			cancelMode = "during-wait"
			cancelAt = waitStart + (waitEnd-waitStart)/2
		case 1:
			cancelMode = "at-wait-end"
			cancelAt = waitEnd
		case 2:
			cancelMode = "during-attempt"
			cancelAt = waitStart - script[k-1].Delay/2
		}
		if cancelAt < 0 {
			cancelAt = 0
		}
	}
	c.SetPlan("cancel", fmt.Sprintf("%s at +%v", cancelMode, cancelAt))
	callStart := s.Now()
	ctx, cancel := context.WithCancel(context.Background())
	defer cancel()
	var cancelledAt time.Duration = -1
	if cancelAt >= 0 {
		s.Go("canceller", func() {
			s.Sleep(cancelAt)
			cancelledAt = s.Now()
			cancel()
		})
	}
	res, err := cl.API.CallTool(ctx, callToolReq("echo", map[string]interface{}{"nonce": nonce}))
	callEnd := s.Now()
	s.Net.Script = nil

	// ---- oracle (from the statement) ----
	sig := func(what string) string { return fmt.Sprintf("C17|%s|%s", what, kind) }
	maxAttempts := 1
	if cfg.Set {
		maxAttempts = eff.Retries + 1
	}
	desc := func() string {
		var parts []string
		for i, a := range attempts {
			o := "server"
			if a.out != nil {
				o = a.out.String()
			}
			parts = append(parts, fmt.Sprintf("#%d@+%v:%s", i+1, a.start-callStart, o))
		}
		return strings.Join(parts, " ")
	}
	if len(attempts) > maxAttempts {
		s.Violate(sig("too-many-attempts"), "%d attempts with MaxRetries=%d (clamped %d, retry option set=%v): %s", len(attempts), cfg.Retries, eff.Retries, cfg.Set, desc())
	}
	if len(attempts) == 0 {
		if cancelledAt < 0 {
			s.Violate(sig("no-attempt"), "the call never reached the network: %v", err)
		}
		cl.API.Close()
		return
	}
	for i := 0; i+1 < len(attempts); i++ {
		a, b := attempts[i], attempts[i+1]
		if a.out == nil {
			s.Violate(sig("retry-after-server-answer"), "attempt %d was answered by the server (%s), yet attempt %d followed: %s", i+1, map[bool]string{true: "success", false: "JSON-RPC error"}[toolExists], i+2, desc())
			continue
		}
		if !a.out.transient() {
			bodyNote := ""
			if a.out.Body != "" {
				bodyNote = fmt.Sprintf(" (response body %q)", a.out.Body)
			}
			what := fmt.Sprintf("retry-after-non-transient|%s", a.out)
			if c17BodyMentionsTransient(a.out.Body) {
				// the trigger is the response *body* quoting a transient-looking code, not the status itself
				what = fmt.Sprintf("retry-after-non-transient|4xx-with-body-quoting-a-transient-code")
				if a.out.Status >= 500 || a.out.Status < 400 {
					what = fmt.Sprintf("retry-after-non-transient|%s|body-echo", a.out)
				}
			}
			s.Violate(sig(what), "attempt %d failed with %s%s, which is not transient, yet attempt %d followed: %s", i+1, a.out, bodyNote, i+2, desc())
		}
		gap := b.start - a.end
		if want := eff.backoff(i + 1); gap != want {
			s.Violate(sig("backoff"), "wait %d was %v, InitialBackoff x Factor^(k-1) capped at MaxBackoff gives %v (config %+v clamped %+v): %s", i+1, gap, want, cfg, eff, desc())
		}
		if cancelledAt >= 0 && b.start > cancelledAt {
			s.Violate(sig("attempt-after-cancel"), "attempt %d started at +%v, after the context was cancelled at +%v", i+2, b.start-callStart, cancelledAt-callStart)
		}
	}
	if cancelledAt >= 0 && callEnd > cancelledAt {
		s.Violate(sig("cancel-not-prompt"), "context cancelled at +%v (%s), the call returned at +%v: %v", cancelledAt-callStart, cancelMode, callEnd-callStart, err)
	}
	if cancelledAt >= 0 && callEnd == cancelledAt && err != nil {
		s.Probe("c17.cancelled_calls")
		if !strings.Contains(err.Error(), context.Canceled.Error()) {
			// the call may also have ended at that very instant for its own reason (last attempt failed)
			last := attempts[len(attempts)-1]
			if !(last.end == callEnd && (len(attempts) == maxAttempts || last.out == nil || !last.out.transient())) {
				s.Violate(sig("cancel-error"), "call ended by cancellation returned %q, which does not carry the context's error", err)
			}
		}
	}
	if err == nil {
		if textOf(res) != "r:"+nonce {
			s.Violate(sig("wrong-result"), "call returned %q", short(textOf(res)))
		}
		if last := attempts[len(attempts)-1]; last.out != nil || !toolExists {
			s.Violate(sig("success-from-nowhere"), "call succeeded although its last attempt was %v", last.out)
		}
	}
	s.Probe(fmt.Sprintf("c17.attempts.%d", len(attempts)))
	if len(attempts) > 1 {
		s.Probe("c17.retried")
	}
	cl.API.Close()
}
