package props

import (
	"bufio"
	"bytes"
	"context"
	"encoding/json"
	"fmt"
	"io"
	"net/http"
	"os/exec"
	"strings"
	"sync"
	"time"

	mcp "trpc.group/trpc-go/trpc-mcp-go"
	"verif/sim"
)

// C07 — clients survive arbitrary server output.
//
// The server is scripted by the harness (not the library's): it speaks the protocol correctly except
// where the plan tells it to emit something else.

func init() {
	register(&Scenario{Prop: "C07", Run: runC07, Post: postC07, Opts: sim.Options{MaxSteps: 200000, MaxSimTime: 60 * time.Minute}})
}

func postC07(c *Ctx, res *sim.Result) []sim.Violation {
	var out []sim.Violation
	variant, _ := c.Plan["variant"].(string)
	items := fmt.Sprint(c.Plan["garbage"])
	for _, e := range res.LibEvents {
		if strings.Contains(e, "panic") && !strings.Contains(e, "handler panic") {
			where := e
			if i := strings.Index(e, " ["); i > 0 {
				where = e[:i]
			}
			out = append(out, sim.Violation{Sig: fmt.Sprintf("C07|%s|%s", strings.ReplaceAll(where, " ", "-"), variant), Msg: "server output " + items + " made a client goroutine panic: " + e + "\n" + strings.Join(res.Notes, "\n"), Step: res.Steps})
		}
		if strings.Contains(e, "livelock") {
			out = append(out, sim.Violation{Sig: "C07|spin|" + variant, Msg: "server output " + items + " made a client goroutine spin: " + e, Step: res.Steps})
		}
	}
	return out
}

// garbage catalogue; each item renders itself for an SSE stream, a JSON body or a stdio line.
var c07Items = []string{
	"raw-bytes", "non-json", "json-scalar", "wrong-kind-request", "wrong-kind-notification", "unknown-id-response",
	"id-object", "id-float", "id-string-for-int", "id-null", "no-jsonrpc", "result-and-error", "empty-object",
	"blank-lines", "comment", "unknown-event-type", "giant-64k-minus", "giant-64k-plus", "giant-1m", "second-endpoint",
	"truncated-json", "nested-deep", "bom", "crlf", "answer-x3", "answer-pretty",
}

func c07JSON(item string) string {
	switch item {
	case "raw-bytes":
		return "\x00\x01\xff\xfe binary"
	case "non-json":
		return "this is not json"
	case "json-scalar":
		return "42"
	case "wrong-kind-request":
		return `{"jsonrpc":"2.0","id":"srv-1","method":"verif/unknown","params":{}}`
	case "wrong-kind-notification":
		return `{"jsonrpc":"2.0","method":"notifications/verif-noise","params":{"x":1}}`
	case "unknown-id-response":
		return `{"jsonrpc":"2.0","id":987654321,"result":{}}`
	case "id-object":
		return `{"jsonrpc":"2.0","id":{"a":1},"result":{}}`
	case "id-float":
		return `{"jsonrpc":"2.0","id":12.5,"result":{}}`
	case "id-string-for-int":
		return `{"jsonrpc":"2.0","id":"2","result":{"content":[{"type":"text","text":"r:stolen"}]}}`
	case "id-null":
		return `{"jsonrpc":"2.0","id":null,"error":{"code":-32700,"message":"parse error"}}`
	case "no-jsonrpc":
		return `{"id":900003,"result":{}}`
	case "result-and-error":
		return `{"jsonrpc":"2.0","id":777,"result":{},"error":{"code":1,"message":"both"}}`
	case "empty-object":
		return `{}`
	case "giant-64k-minus":
		return `{"jsonrpc":"2.0","method":"notifications/verif-noise","params":{"pad":"` + strings.Repeat("g", 65536-80) + `"}}`
	case "giant-64k-plus":
		return `{"jsonrpc":"2.0","method":"notifications/verif-noise","params":{"pad":"` + strings.Repeat("g", 65536+10) + `"}}`
	case "giant-1m":
		return `{"jsonrpc":"2.0","method":"notifications/verif-noise","params":{"pad":"` + strings.Repeat("g", 1<<20) + `"}}`
	case "truncated-json":
		return `{"jsonrpc":"2.0","id":900005,"resu`
	case "nested-deep":
		return `{"jsonrpc":"2.0","method":"notifications/verif-noise","params":` + strings.Repeat(`{"a":`, 500) + "1" + strings.Repeat("}", 500) + `}`
	case "bom":
		return "\xef\xbb\xbf" + `{"jsonrpc":"2.0","method":"notifications/verif-noise"}`
	}
	return ""
}

// c07SSE renders an item as bytes for an event stream.
func c07SSE(item string) string {
	switch item {
	case "blank-lines":
		return "\n\n\n"
	case "comment":
		return ": just a comment\n\n: another\n\n"
	case "unknown-event-type":
		return "event: verif-unknown\ndata: {}\n\n"
	case "second-endpoint":
		return "event: endpoint\ndata: /mcp/message?sessionId=scripted\n\n"
	case "crlf":
		return "event: message\r\ndata: {\"jsonrpc\":\"2.0\",\"method\":\"notifications/verif-noise\"}\r\n\r\n"
	case "raw-bytes":
		return "\x00\x01\xff\xfe binary without structure\n\n"
	}
	if j := c07JSON(item); j != "" {
		return "event: message\ndata: " + j + "\n\n"
	}
	return ""
}

// c07Line renders an item as a stdio line (or lines).
func c07Line(item string) string {
	switch item {
	case "blank-lines":
		return "\n\n\n"
	case "comment", "unknown-event-type", "second-endpoint":
		return ""
	case "crlf":
		return `{"jsonrpc":"2.0","method":"notifications/verif-noise"}` + "\r\n"
	}
	if j := c07JSON(item); j != "" {
		return j + "\n"
	}
	return ""
}

func answerFor(id interface{}, method string, params map[string]interface{}) map[string]interface{} {
	var result interface{} = map[string]interface{}{}
	switch method {
	case "initialize":
		result = map[string]interface{}{"protocolVersion": "2025-03-26", "capabilities": map[string]interface{}{"tools": map[string]interface{}{}}, "serverInfo": map[string]interface{}{"name": "scripted", "version": "0"}}
	case "tools/call":
		args, _ := params["arguments"].(map[string]interface{})
		n, _ := args["nonce"].(string)
		result = map[string]interface{}{"content": []interface{}{map[string]interface{}{"type": "text", "text": "r:" + n}}}
	}
	return map[string]interface{}{"jsonrpc": "2.0", "id": id, "result": result}
}

func runC07(c *Ctx) {
	s, t := c.S, c.T
	variants := []string{"streamable-json", "streamable-sse", "streamable-get", "legacy-sse", "stdio"}
	variant := variants[int(c.Run)%len(variants)]
	nItems := 1 + t.Draw(3)
	var items []string
	for i := 0; i < nItems; i++ {
		items = append(items, c07Items[t.Draw(len(c07Items))])
	}
	// the enumeration part: every item is the first item of some run
	items[0] = c07Items[(int(c.Run)/len(variants))%len(c07Items)]
	// "silent": the garbage is all the affected call ever gets - its stream (or the shared stream)
	// stays open and says nothing more; the call is still pending when the others run and when the
	// client is closed
	position := []string{"before", "instead", "after", "silent"}[t.Draw(4)]
	c.SetPlan("variant", variant)
	c.SetPlan("garbage", items)
	c.SetPlan("position", position)
	s.Net.NoWriterContract = true // the server is a harness script
	s.Net.Faults = sim.NetFaults{ShortRead: t.Pick(0, 20)}
	affected := "A-" + c.Nonce("n")

	notifSeen := newCounter()
	onNotif := func(n *mcp.JSONRPCNotification) error {
		v, _ := n.Params.AdditionalFields["nonce"].(string)
		notifSeen.Inc(v)
		return nil
	}
	var cl caller
	var push func(string) // emits bytes on the server->client background channel (GET stream / legacy stream / stdout)
	var pushReady func() bool
	var mu sync.Mutex

	switch variant {
	case "streamable-json", "streamable-sse", "streamable-get":
		var getW http.ResponseWriter
		s.Net.Serve("srv", http.HandlerFunc(func(w http.ResponseWriter, r *http.Request) {
			switch r.Method {
			case "GET":
				w.Header().Set("Content-Type", "text/event-stream")
				w.Header().Set("Mcp-Session-Id", "scripted-session")
				w.WriteHeader(200)
				w.(http.Flusher).Flush()
				mu.Lock()
				getW = w
				mu.Unlock()
				<-r.Context().Done()
				s.Yield("scripted-server#ctx-done") // park first, look afterwards
				mu.Lock()
				getW = nil
				mu.Unlock()
			case "DELETE":
				w.WriteHeader(200)
			case "POST":
				body, _ := io.ReadAll(r.Body)
				var m map[string]interface{}
				json.Unmarshal(body, &m)
				id, hasID := m["id"]
				method, _ := m["method"].(string)
				params, _ := m["params"].(map[string]interface{})
				w.Header().Set("Mcp-Session-Id", "scripted-session")
				if !hasID {
					w.WriteHeader(202)
					return
				}
				ans := mustJSON(answerFor(id, method, params))
				isAffected := strings.Contains(string(body), affected)
				if variant == "streamable-sse" && method == "tools/call" {
					w.Header().Set("Content-Type", "text/event-stream")
					w.WriteHeader(200)
					fl := w.(http.Flusher)
					emit := func() {
						for _, it := range items {
							if it == "answer-x3" {
								// the answer of this very request, three times back to back
								for i := 0; i < 3; i++ {
									fmt.Fprintf(w, "id: d%d\ndata: %s\n\n", i, ans)
								}
							} else if it == "answer-pretty" {
								// the answer spread over several data: lines (one SSE event)
								fmt.Fprintf(w, "id: p1\ndata: %s\n\n", strings.ReplaceAll(prettyJSON(ans), "\n", "\ndata: "))
							} else {
								io.WriteString(w, c07SSE(it))
							}
							fl.Flush()
						}
					}
					if isAffected && position == "silent" {
						emit()
						<-r.Context().Done()
						s.Yield("scripted-server#ctx-done") // park first, look afterwards
						return
					}
					if isAffected && position == "before" {
						emit()
					}
					if !(isAffected && position == "instead") {
						fmt.Fprintf(w, "id: e1\ndata: %s\n\n", ans)
						fl.Flush()
					} else {
						emit()
					}
					if isAffected && position == "after" {
						emit()
					}
					return
				}
				w.Header().Set("Content-Type", "application/json")
				if variant == "streamable-json" && isAffected {
					w.WriteHeader(200)
					switch position {
					case "silent":
						io.WriteString(w, c07JSON(items[0]))
						w.(http.Flusher).Flush()
						<-r.Context().Done()
						s.Yield("scripted-server#ctx-done") // park first, look afterwards
					case "before":
						io.WriteString(w, c07JSON(items[0])+"\n")
						w.Write(ans)
					case "instead":
						io.WriteString(w, c07JSON(items[0]))
					case "after":
						w.Write(ans)
						io.WriteString(w, "\n"+c07JSON(items[0]))
					}
					return
				}
				w.WriteHeader(200)
				w.Write(ans)
			}
		}))
		hc, err := mcp.NewClient("http://srv/mcp", clientInfo, mcp.WithClientLogger(nopLogger{}))
		if err != nil {
			panic(err)
		}
		hc.RegisterNotificationHandler("notifications/verif", onNotif)
		cl = hc
		push = func(b string) {
			mu.Lock()
			w := getW
			mu.Unlock()
			if w != nil {
				io.WriteString(w, b)
				w.(http.Flusher).Flush()
			}
		}
		pushReady = func() bool { mu.Lock(); defer mu.Unlock(); return getW != nil }
	case "legacy-sse":
		var streamW http.ResponseWriter
		s.Net.Serve("srv", http.HandlerFunc(func(w http.ResponseWriter, r *http.Request) {
			if r.Method == "GET" {
				w.Header().Set("Content-Type", "text/event-stream")
				w.WriteHeader(200)
				io.WriteString(w, "event: endpoint\ndata: /mcp/message?sessionId=scripted\n\n")
				w.(http.Flusher).Flush()
				mu.Lock()
				streamW = w
				mu.Unlock()
				<-r.Context().Done()
				s.Yield("scripted-server#ctx-done") // park first, look afterwards
				mu.Lock()
				streamW = nil
				mu.Unlock()
				return
			}
			body, _ := io.ReadAll(r.Body)
			var m map[string]interface{}
			json.Unmarshal(body, &m)
			id, hasID := m["id"]
			method, _ := m["method"].(string)
			params, _ := m["params"].(map[string]interface{})
			w.WriteHeader(202)
			if !hasID {
				return
			}
			mu.Lock()
			sw := streamW
			mu.Unlock()
			if sw == nil {
				return
			}
			emit := func() {
				for _, it := range items {
					if it == "answer-x3" {
						a := mustJSON(answerFor(id, method, params))
						for i := 0; i < 3; i++ {
							fmt.Fprintf(sw, "event: message\ndata: %s\n\n", a)
						}
					} else if it == "answer-pretty" {
						fmt.Fprintf(sw, "event: message\ndata: %s\n\n", strings.ReplaceAll(prettyJSON(mustJSON(answerFor(id, method, params))), "\n", "\ndata: "))
					} else {
						io.WriteString(sw, c07SSE(it))
					}
					sw.(http.Flusher).Flush()
				}
			}
			isAffected := strings.Contains(string(body), affected)
			if isAffected && position == "before" {
				emit()
			}
			if isAffected && (position == "instead" || position == "silent") {
				emit()
			} else {
				fmt.Fprintf(sw, "event: message\ndata: %s\n\n", mustJSON(answerFor(id, method, params)))
				sw.(http.Flusher).Flush()
			}
			if isAffected && position == "after" {
				emit()
			}
		}))
		hc, err := mcp.NewSSEClient("http://srv/mcp/sse", clientInfo, mcp.WithClientLogger(nopLogger{}))
		if err != nil {
			panic(err)
		}
		cl = hc
		push = func(b string) {
			mu.Lock()
			w := streamW
			mu.Unlock()
			if w != nil {
				io.WriteString(w, b)
				w.(http.Flusher).Flush()
			}
		}
		pushReady = func() bool { mu.Lock(); defer mu.Unlock(); return streamW != nil }
	case "stdio":
		toSrv, fromSrv, errp := s.NewPipe("cl.stdin"), s.NewPipe("cl.stdout"), s.NewPipe("cl.stderr")
		exited := make(chan struct{})
		sc, err := mcp.NewStdioClient(mcp.StdioTransportConfig{ServerParams: mcp.StdioServerParameters{Command: "sim"}, Timeout: 30 * time.Second},
			clientInfo, mcp.WithStdioLogger(nopLogger{}))
		if err != nil {
			panic(err)
		}
		sc.RegisterNotificationHandler("notifications/verif", onNotif)
		out := fromSrv.Writer()
		s.Go("scripted-server", func() {
			rd := bufio.NewReaderSize(toSrv.Reader(), 1<<21)
			var curAnswer []byte
			emit := func() {
				for _, it := range items {
					if it == "answer-x3" {
						for i := 0; i < 3; i++ {
							out.Write(append(append([]byte(nil), curAnswer...), '\n'))
						}
					} else if it == "answer-pretty" {
						// the answer spread over several lines, and no newline after it
						io.WriteString(out, prettyJSON(curAnswer))
					} else if l := c07Line(it); l != "" {
						io.WriteString(out, l)
					}
				}
			}
			for {
				line, err := rd.ReadBytes('\n')
				if err != nil {
					return
				}
				var m map[string]interface{}
				if json.Unmarshal(line, &m) != nil {
					continue
				}
				id, hasID := m["id"]
				method, _ := m["method"].(string)
				params, _ := m["params"].(map[string]interface{})
				if !hasID || method == "" {
					continue
				}
				isAffected := strings.Contains(string(line), affected)
				curAnswer = mustJSON(answerFor(id, method, params))
				if isAffected && position == "before" {
					emit()
				}
				if isAffected && (position == "instead" || position == "silent") {
					emit()
				} else {
					out.Write(append(mustJSON(answerFor(id, method, params)), '\n'))
				}
				if isAffected && position == "after" {
					emit()
				}
			}
		})
		mcp.VerifAttachStdio(sc, toSrv.Writer(), fromSrv.Reader(), errp.Reader(), func(cmd *exec.Cmd) { s.RegisterProc(cmd, exited, func() error { return nil }) }, func(n string, f func()) { s.GoLib("cl/"+n, f) })
		cl = sc
		push = func(b string) { io.WriteString(out, b) }
		pushReady = func() bool { return true }
	}

	ctxT := func(d time.Duration) (context.Context, context.CancelFunc) {
		return context.WithTimeout(context.Background(), d)
	}
	ictx, icancel := ctxT(3 * time.Minute)
	_, err := cl.Initialize(ictx, &mcp.InitializeRequest{})
	icancel()
	if err != nil {
		s.Violate("C07|init-failed|"+variant, "Initialize against the well-behaved part of the scripted server failed: %v", err)
		return
	}
	for i := 0; i < 50 && !pushReady(); i++ {
		s.Settle(time.Millisecond)
	}
	call := func(nonce string, d time.Duration) (string, error) {
		ctx, cancel := ctxT(d)
		defer cancel()
		res, err := cl.CallTool(ctx, callToolReq("echo", map[string]interface{}{"nonce": nonce}))
		if err != nil {
			return "", err
		}
		return textOf(res), nil
	}
	// a pending call that overlaps the affected one
	var pendErr error
	var pendGot string
	pendNonce := c.Nonce("P")
	pend := s.Go("pending-call", func() { pendGot, pendErr = call(pendNonce, 2*time.Minute) })
	// the affected call (in "silent" runs it stays pending on its own task until the end)
	var aGot string
	var aErr error
	var aTask *sim.Task
	if position == "silent" {
		aTask = s.Go("affected-call", func() { aGot, aErr = call(affected, 20*time.Minute) })
		s.Settle(20 * time.Millisecond)
		// registration changes by another goroutine of the application must not hang behind the
		// stream that never finishes
		regDone := false
		reg := s.Go("registrar", func() {
			h := func(n *mcp.JSONRPCNotification) error { return nil }
			switch x := cl.(type) {
			case *mcp.Client:
				x.RegisterNotificationHandler("notifications/other", h)
				x.UnregisterNotificationHandler("notifications/other")
			case *mcp.StdioClient:
				x.RegisterNotificationHandler("notifications/other", h)
				x.UnregisterNotificationHandler("notifications/other")
			}
			regDone = true
		})
		s.WaitTasks(time.Minute, reg)
		if !regDone {
			s.Violate("C07|registration-blocked|"+variant, "RegisterNotificationHandler did not return while a call sits on a stream that got %v and then nothing", items)
		}
	} else {
		aGot, aErr = call(affected, 2*time.Minute)
	}
	lenientID := false
	for _, it := range items {
		if it == "id-string-for-int" {
			// a response whose id is the string "2" for request 2: a client may take it for the answer
			// (the server said so); what it then returns is that frame's content
			lenientID = true
		}
	}
	if aTask == nil && aErr == nil && aGot != "r:"+affected && !(lenientID && aGot == "r:stolen") {
		s.Violate("C07|affected-call-wrong-result|"+variant, "with server output %v %s its answer, the call returned %q instead of an error or its own result", items, position, short(aGot))
	}
	if aTask != nil {
		s.Probe("c07.affected_pending")
	} else if aErr != nil {
		s.Probe("c07.affected_error")
	} else {
		s.Probe("c07.affected_ok")
	}
	// background-channel garbage (GET stream / legacy stream / stdout), then a well-formed notification
	if variant == "streamable-get" || t.Bool(40) {
		for _, it := range items {
			if variant == "stdio" {
				push(c07Line(it))
			} else {
				push(c07SSE(it))
			}
		}
	}
	s.WaitTasks(5*time.Minute, pend)
	if !s.TaskExited(pend) {
		s.Violate("C07|pending-call-stuck|"+variant, "a call pending while %v arrived never returned", items)
	} else if pendErr != nil {
		s.Violate(fmt.Sprintf("C07|pending-call-failed|%s|%s", variant, errClass(pendErr)), "a call pending while %v arrived (for another call) failed: %v", items, pendErr)
	} else if pendGot != "r:"+pendNonce && !(lenientID && pendGot == "r:stolen") {
		s.Violate("C07|pending-call-wrong-result|"+variant, "pending call got %q", short(pendGot))
	}
	// later calls still complete
	for i := 0; i < 2; i++ {
		n := c.Nonce("L")
		got, err := call(n, 2*time.Minute)
		if err != nil {
			s.Violate(fmt.Sprintf("C07|later-call-failed|%s|%s", variant, errClass(err)), "after server output %v (%s the answer of an earlier call) a later call failed: %v", items, position, err)
			break
		} else if got != "r:"+n && !(lenientID && got == "r:stolen") {
			s.Violate("C07|later-call-wrong-result|"+variant, "later call got %q", short(got))
		}
	}
	// later well-formed frames are still processed
	if variant != "legacy-sse" && pushReady() { // the legacy client exposes no notification handler API
		nn := c.Nonce("N")
		frame := string(mustJSON(map[string]interface{}{"jsonrpc": "2.0", "method": "notifications/verif", "params": map[string]interface{}{"nonce": nn}}))
		if variant == "stdio" {
			push(frame + "\n")
		} else {
			push("id: n1\ndata: " + frame + "\n\n")
		}
		s.Settle(20 * time.Millisecond)
		if notifSeen.Get(nn) != 1 {
			s.Violate("C07|later-frame-not-processed|"+variant, "a well-formed notification sent after %v reached its handler %d times", items, notifSeen.Get(nn))
		}
	}
	closed := false
	closer := s.Go("closer", func() { cl.Close(); closed = true })
	s.WaitTasks(10*time.Minute, closer)
	if !closed {
		s.Violate("C07|close-blocked|"+variant, "Close did not return (position %s)", position)
	}
	if aTask != nil {
		s.WaitTasks(25*time.Minute, aTask)
		if !s.TaskExited(aTask) {
			s.Violate("C07|affected-call-stuck|"+variant, "the call whose stream got %v and then nothing never returned, not even after Close and its own deadline", items)
		} else if aErr == nil && aGot != "r:"+affected && !(lenientID && aGot == "r:stolen") {
			s.Violate("C07|affected-call-wrong-result|"+variant, "the call whose stream got %v and then nothing returned %q", items, short(aGot))
		}
	}
	s.Probe("c07.variant." + variant)
}

func prettyJSON(b []byte) string {
	var buf bytes.Buffer
	if json.Indent(&buf, b, "", "  ") != nil {
		return string(b)
	}
	return buf.String()
}
