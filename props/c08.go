package props

import (
	"context"
	"fmt"
	"strings"
	"sync"
	"time"

	mcp "trpc.group/trpc-go/trpc-mcp-go"
	"verif/sim"
)

// C08 — every client call ends when its connection or context ends; nothing leaks.
//
// Fault enumeration: a fault-free pilot run records every I/O point (request sent, each server
// write/flush, each client read, each pipe read/write); the run is then repeated with one fault
// armed at each point.

func init() {
	register(&Scenario{Prop: "C08", Run: runC08, Post: postC08, Opts: sim.Options{MaxSteps: 80000, MaxSimTime: 60 * time.Minute},
		Enum: &EnumSpec{
			Kinds: func(site string) []string {
				switch {
				case strings.HasPrefix(site, "net.send"):
					return []string{"reset", "cancel", "stall", "close-client"}
				case strings.HasPrefix(site, "net."):
					return []string{"reset", "cut", "cancel", "stall", "close-client"}
				case strings.HasPrefix(site, "pipe."):
					return []string{"kill-child", "exit-child", "cancel", "close-client"}
				}
				return nil
			},
			MaxPerPilot: map[string]int{"quick": 40, "thorough": 0},
		}})
}

// postC08: a panic in any goroutine - the library's or the caller's own, inside a library call -
// ends the run at once, so it is judged here.
func postC08(c *Ctx, res *sim.Result) []sim.Violation {
	var out []sim.Violation
	mode, _ := c.Plan["mode"].(string)
	seen := map[string]bool{}
	for _, e := range res.LibEvents {
		if !strings.Contains(e, "panic") || strings.Contains(e, "handler panic") {
			continue
		}
		where := e
		if i := strings.Index(e, " ["); i > 0 {
			where = e[:i]
		}
		kind := "none"
		if f := c.S.ArmedFault(); f != nil && res.FaultFired {
			kind = f.Kind
		}
		sig := fmt.Sprintf("C08|panic|mode=%s|fault=%s|%s", mode, kind, strings.ReplaceAll(where, " ", "-"))
		if !seen[sig] {
			seen[sig] = true
			out = append(out, sim.Violation{Sig: sig, Msg: fmt.Sprintf("fault %s at %q: %s\n%s", kind, c.S.FaultSite, e, strings.Join(res.Notes, "\n")), Step: res.Steps})
		}
	}
	return out
}

func runC08(c *Ctx) {
	s, t := c.S, c.T
	mode := allModes[t.Draw(len(allModes))]
	c.SetPlan("mode", mode)
	w := newWorld(c, mode, "srv")
	w.register(func(r registrar) { registerC09Tools(c, r, w.Count) })
	s.Net.Faults = sim.NetFaults{ShortRead: t.Pick(0, 20)}
	withHandlers := t.Bool(40)
	var opts []mcp.ClientOption
	cl := w.newClient(opts...)
	if cl.HTTP != nil && withHandlers {
		cl.HTTP.RegisterNotificationHandler("notifications/verif", func(n *mcp.JSONRPCNotification) error { return nil })
	}
	c.SetPlan("client_notification_handler", withHandlers)

	var mu sync.Mutex
	var cancels []context.CancelFunc
	stalled := false
	s.OnFault = func(kind string, ref interface{}) {
		switch kind {
		case "reset", "cut":
			if conn, ok := ref.(*sim.Conn); ok {
				conn.Kill(kind)
			}
		case "cancel":
			mu.Lock()
			cs := append([]context.CancelFunc(nil), cancels...)
			mu.Unlock()
			for _, f := range cs {
				f()
			}
		case "kill-child":
			if cl.Link != nil {
				cl.Link.Kill()
			}
		case "exit-child":
			// the server process leaves on its own, status 0, whatever is still in flight
			if cl.Link != nil {
				cl.Link.ExitClean()
			}
		case "close-client":
			// another goroutine of the application closes the client while calls are pending
			s.Go("fault-closer", func() { cl.API.Close() })
		case "stall":
			// the network stops delivering: everything the server side does from now on takes forever
			stalled = true
			s.Net.Stall(20 * time.Minute)
		}
	}
	const deadline = 90 * time.Second
	newCtx := func() (context.Context, context.CancelFunc) {
		ctx, cancel := context.WithTimeout(context.Background(), deadline)
		mu.Lock()
		cancels = append(cancels, cancel)
		mu.Unlock()
		return ctx, cancel
	}
	type callRec struct {
		name            string
		nonce           string
		size            int
		start, end      time.Duration
		done            bool
		err             error
		got             string
		startedPreFault bool
	}
	var recs []*callRec
	record := func(r *callRec) {
		c.mu.Lock()
		recs = append(recs, r)
		c.mu.Unlock()
	}
	// the handshake is a client call like any other
	ir := &callRec{name: "initialize", start: s.Now(), startedPreFault: !s.FaultFired()}
	record(ir)
	ictx, icancel := newCtx()
	_, ierr := cl.API.Initialize(ictx, &mcp.InitializeRequest{})
	icancel()
	ir.end, ir.done, ir.err = s.Now(), true, ierr

	// true when Close follows a successful Initialize at once (no call in between): the leaks
	// found then carry this in their signature
	closeRightAfterInit := false
	leakSig := func(kind, rest string) string {
		if closeRightAfterInit {
			return fmt.Sprintf("C08|close-right-after-initialize|mode=%s|%s%s", mode, kind, rest)
		}
		return fmt.Sprintf("C08|%s|mode=%s%s", kind, mode, rest)
	}
	// an application that retries the handshake on the same client after it failed (only after
	// the fault; nothing is demanded of the retry but that it returns): whatever the first
	// attempt left behind must still be released by Close
	if ierr != nil && cl.Link == nil && t.Bool(60) {
		c.SetPlan("retry_initialize", true)
		s.Probe("c08.initialize_retried")
		rr := &callRec{name: "initialize-retry", start: s.Now(), startedPreFault: false}
		record(rr)
		rctx, rcancel := newCtx()
		_, rerr := cl.API.Initialize(rctx, &mcp.InitializeRequest{})
		rcancel()
		rr.end, rr.done, rr.err = s.Now(), true, rerr
		if rerr == nil {
			s.Probe("c08.initialize_retry_succeeded")
			closeRightAfterInit = true
		}
	}

	var tasks []*sim.Task
	if ierr == nil {
		nCallers := 1 + t.Draw(3)
		for k := 0; k < nCallers; k++ {
			nOps := 1 + t.Draw(2)
			size := t.Pick(10, 5000, 70000)
			delay := t.Pick(0, 0, 5)
			tasks = append(tasks, s.Go(fmt.Sprintf("caller%d", k), func() {
				for i := 0; i < nOps; i++ {
					r := &callRec{name: "tools/call", nonce: c.Nonce("n"), size: size, start: s.Now(), startedPreFault: !s.FaultFired()}
					record(r)
					ctx, cancel := newCtx()
					res, err := cl.API.CallTool(ctx, callToolReq("big", map[string]interface{}{"nonce": r.nonce, "size": float64(size), "delay_ms": float64(delay)}))
					cancel()
					r.end, r.done, r.err = s.Now(), true, err
					if err == nil {
						r.got = textOf(res)
					}
				}
			}))
		}
	}
	alive := s.WaitTasks(30*time.Minute, tasks...)
	fault := s.ArmedFault()
	kind := "none"
	if fault != nil && s.FaultFired() {
		kind = fault.Kind
	}
	for _, a := range alive {
		s.Violate(fmt.Sprintf("C08|blocked-forever|mode=%s|fault=%s", mode, kind), "%s still has a call pending 30 simulated minutes after the fault (%s at %q)", a.Name, kind, s.FaultSite)
	}
	_ = stalled
	for _, r := range recs {
		if !r.done {
			continue
		}
		if r.err == nil {
			if r.name == "tools/call" && r.got != payload("r:"+r.nonce, r.size) {
				s.Violate(fmt.Sprintf("C08|wrong-or-partial-result|mode=%s|fault=%s", mode, kind), "call %s returned success with %d bytes, expected the %d-byte answer (prefix %q)", r.nonce, len(r.got), len(payload("r:"+r.nonce, r.size)), short(r.got))
			}
			continue
		}
		if kind == "none" {
			s.Violate(fmt.Sprintf("C08|fault-free-error|mode=%s|%s", mode, errClass(r.err)), "fault-free pilot: %s %s failed: %v", r.name, r.nonce, r.err)
			continue
		}
		pending := r.startedPreFault && r.end >= s.FaultTime
		if !pending {
			continue
		}
		s.Probe("c08.pending_call_failed." + kind)
		switch kind {
		case "reset", "cut", "cancel", "kill-child", "exit-child":
			if r.end != s.FaultTime {
				s.Violate(fmt.Sprintf("C08|not-prompt|mode=%s|fault=%s|%s", mode, kind, errClass(r.err)),
					"%s %s was pending when the fault (%s at %q, t=%v) hit and failed only at t=%v (%v later): %v", r.name, r.nonce, kind, s.FaultSite, s.FaultTime, r.end, r.end-s.FaultTime, r.err)
			}
		case "close-client":
			// Close ends pending calls; the statement promises an error (never a wrong or partial
			// result) and no call blocked forever - judged above and by the wait before
		case "stall":
			if r.end > r.start+deadline {
				s.Violate(fmt.Sprintf("C08|deadline-overrun|mode=%s|%s", mode, errClass(r.err)),
					"%s %s (deadline %v after t=%v) returned only at t=%v: %v", r.name, r.nonce, deadline, r.start, r.end, r.err)
			}
		}
	}

	// ---- release of resources after Close ----
	closeDone := false
	closer := s.Go("closer", func() {
		cl.API.Close()
		closeDone = true
	})
	s.WaitTasks(10*time.Minute, closer)
	if !closeDone {
		s.Violate(fmt.Sprintf("C08|close-blocked|mode=%s|fault=%s", mode, kind), "Close did not return within 10 simulated minutes")
		return
	}
	if cl.Link != nil {
		s.WaitTasks(time.Minute, cl.Link.Task)
	}
	s.Net.Unstall()
	s.Settle(25 * time.Minute) // longer than any timer the library arms (30 s / 60 s) and the stall
	for _, name := range s.LiveLibTasks() {
		if strings.Contains(name, "session.go:") {
			continue // the per-server session sweeper lives as long as the server
		}
		site := name
		if i := strings.LastIndex(name, ">"); i >= 0 {
			site = name[i+1:]
		}
		if j := strings.Index(site, "#"); j >= 0 {
			site = site[:j]
		}
		s.Violate(leakSig("goroutine-leak", "|"+site), "library goroutine %s is still alive after Close and after all connections are gone (fault %s at %q)", name, kind, s.FaultSite)
	}
	if cl.HTTP != nil {
		if n := mcp.VerifClientPending(cl.HTTP); n > 0 {
			s.Violate(fmt.Sprintf("C08|pending-entry-leak|mode=%s", mode), "%d pending-response entries remain in the client after Close", n)
		}
	} else if n := mcp.VerifStdioClientPending(cl.Stdio); n > 0 {
		s.Violate(fmt.Sprintf("C08|pending-entry-leak|mode=%s", mode), "%d pending-request entries remain in the stdio client after Close", n)
	}
	for _, conn := range s.Net.Conns() {
		if !conn.Handed {
			continue
		}
		if !conn.BodyClosed && !conn.ReadToEOF && conn.ReadErr == "" {
			s.Violate(leakSig("response-body-leak", "|"+conn.Method), "response body of c%d %s %s (status %d) was handed to the client and neither closed nor read to its end (fault %s)", conn.ID, conn.Method, conn.Path, conn.Status, kind)
		}
		if conn.Reached && !conn.Done() {
			s.Violate(leakSig("server-handler-leak", "|"+conn.Method), "server handler of c%d %s %s is still running after the client closed everything", conn.ID, conn.Method, conn.Path)
		}
	}
	if w.Srv != nil && mode != "stateless" && mode != "stateless-json" {
		if n := mcp.VerifGetSSEStreamCount(w.Srv); n != 0 {
			s.Violate(leakSig("stream-registration-leak", ""), "%d GET streams are still registered on the server after the client is gone", n)
		}
	}
	if w.SSE != nil {
		if n := mcp.VerifSSESessionCount(w.SSE); n != 0 {
			s.Violate("C08|sse-session-leak", "%d legacy SSE sessions remain on the server after the client is gone", n)
		}
	}
	s.Probe("c08.mode." + mode)
}
