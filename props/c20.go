package props

import (
	"context"
	"fmt"
	"strings"
	"time"

	mcp "trpc.group/trpc-go/trpc-mcp-go"
	"verif/sim"
)

// C20 — safe for concurrent use: no data races in servers or clients.
//
// The same seeded scheduler, in a binary built with -race.  The simulator's hand-off is invisible
// to the detector (DESIGN.md §4), so the detector judges exactly the library's own synchronisation
// in each (replayable) execution.  Workloads: those of C01, C05, C11, C12, C13 plus a client-centric
// one and concurrent use of Session objects.

func init() {
	register(&Scenario{Prop: "C20", Run: runC20, Post: postC20, Opts: sim.Options{MaxSteps: 150000, MaxSimTime: 40 * time.Minute}})
}

// postC20 adds the one conflicting access the detector cannot see in this build because net/http's
// server is a stub: use of an http.ResponseWriter after (or while) its handler returns.  In a real
// server that is an unsynchronised access to the response's bufio.Writer, which net/http finishes
// and recycles at that moment (DESIGN.md §2.4); the stub records it instead.
func postC20(c *Ctx, res *sim.Result) []sim.Violation {
	var out []sim.Violation
	seen := map[string]bool{}
	for _, e := range res.LibEvents {
		if !strings.Contains(e, "http.ResponseWriter used after the handler returned") {
			continue
		}
		where := "handler-returned-during-write"
		if i := strings.LastIndex(e, "["); i >= 0 && strings.HasSuffix(e, "]") {
			where = e[i+1 : len(e)-1]
		}
		sig := "C20|race|responsewriter-after-handler-return|" + where
		if !seen[sig] {
			seen[sig] = true
			out = append(out, sim.Violation{Sig: sig, Msg: e, Step: res.Steps})
		}
	}
	return out
}

func runC20(c *Ctx) {
	subs := []struct {
		name string
		run  func(*Ctx)
	}{
		{"c01", runC01}, {"c05", runC05}, {"c11", runC11}, {"c12", runC12}, {"c13", runC13}, {"client", c20Client}, {"session", c20Session}, {"client", c20Client},
		// beyond the property's list: the error paths, handshakes, streams and adversarial peers of the other checks
		{"errors", c20Errors}, {"c03", runC03}, {"c06", runC06}, {"c04", runC04}, {"c10", runC10}, {"c09", runC09}, {"c07", runC07}, {"c16", runC16}, {"c15", runC15},
	}
	sub := subs[int(c.Run)%len(subs)]
	c.SetPlan("workload", sub.name)
	c.S.Probe("c20.workload." + sub.name)
	sub.run(c)
}

// c20Client: one client used from many goroutines - concurrent calls, notification handlers running,
// roots provider changes, session id reads, session termination, Close.
func c20Client(c *Ctx) {
	s, t := c.S, c.T
	mode := []string{"post-sse", "json", "legacy-sse", "stdio", "post-sse"}[t.Draw(5)]
	c.SetPlan("mode", mode)
	w := newWorld(c, mode, "srv")
	w.register(func(r registrar) { registerC09Tools(c, r, w.Count) })
	cl := w.newClient()
	handler := func(n *mcp.JSONRPCNotification) error { s.Yield("client-handler"); return nil }
	setRoots := func(i int) {
		p := fixedRoots{[]mcp.Root{{URI: fmt.Sprintf("file:///r%d", i), Name: "r"}}}
		if cl.HTTP != nil {
			cl.HTTP.SetRootsProvider(p)
		} else {
			cl.Stdio.SetRootsProvider(p)
		}
	}
	regHandler := func() {
		if cl.HTTP != nil {
			cl.HTTP.RegisterNotificationHandler("notifications/verif", handler)
		} else {
			cl.Stdio.RegisterNotificationHandler("notifications/verif", handler)
		}
	}
	setRoots(0)
	regHandler()
	// the handshake itself races with observers of the client's state
	var tasks []*sim.Task
	tasks = append(tasks, s.Go("observer", func() {
		for i := 0; i < 4; i++ {
			_ = cl.API.GetState()
			if cl.HTTP != nil {
				_ = cl.HTTP.GetSessionID()
			}
			s.Sleep(time.Duration(c.T.Draw(2)) * time.Millisecond)
		}
	}))
	if err := initClient(c, cl); err != nil {
		return
	}
	nCallers := 2 + t.Draw(3)
	for k := 0; k < nCallers; k++ {
		n := 1 + t.Draw(3)
		tool := []string{"big", "roots", "big"}[t.Draw(3)]
		tasks = append(tasks, s.Go(fmt.Sprintf("caller%d", k), func() {
			for i := 0; i < n; i++ {
				ctx, cancel := context.WithTimeout(context.Background(), 2*time.Minute)
				cl.API.CallTool(ctx, callToolReq(tool, map[string]interface{}{"nonce": fmt.Sprintf("n%d-%d", k, i), "size": float64(100)}))
				cancel()
				if cl.HTTP != nil {
					_ = cl.HTTP.GetSessionID()
				}
			}
		}))
	}
	tasks = append(tasks, s.Go("roots-changer", func() {
		for i := 1; i < 4; i++ {
			setRoots(i)
			regHandler()
			if cl.HTTP != nil {
				ctx, cancel := context.WithTimeout(context.Background(), time.Minute)
				cl.HTTP.SendRootsListChangedNotification(ctx)
				cancel()
			}
			s.Yield("roots#next")
		}
	}))
	if w.Srv != nil {
		tasks = append(tasks, s.Go("server-sender", func() {
			for i := 0; i < 4; i++ {
				ids, _ := w.Srv.GetActiveSessions()
				for _, id := range ids {
					w.Srv.SendNotification(id, "notifications/verif", map[string]interface{}{"i": i})
				}
				w.Srv.BroadcastNotification("notifications/verif", map[string]interface{}{"b": i})
				s.Yield("sender#next")
			}
		}))
	}
	if t.Bool(50) {
		tasks = append(tasks, s.Go("terminator", func() {
			s.Sleep(time.Duration(c.T.Draw(3)) * time.Millisecond)
			if cl.HTTP != nil && cl.Kind == "streamable" {
				ctx, cancel := context.WithTimeout(context.Background(), time.Minute)
				cl.HTTP.TerminateSession(ctx)
				cancel()
			}
			cl.API.Close()
		}))
	}
	s.WaitTasks(20*time.Minute, tasks...)
	cl.API.Close()
	s.Settle(10 * time.Millisecond)
}

// c20Session: Session objects handed to user code are read and written concurrently, while sessions
// come and go and initialize recomputes the capabilities.
func c20Session(c *Ctx) {
	s, t := c.S, c.T
	mode := []string{"post-sse", "json", "legacy-sse"}[t.Draw(3)]
	c.SetPlan("mode", mode)
	w := newWorld(c, mode, "srv")
	w.Reg.RegisterTool(mcp.NewTool("touch"), func(ctx context.Context, req *mcp.CallToolRequest) (*mcp.CallToolResult, error) {
		if se, ok := mcp.GetSessionFromContext(ctx); ok && se != nil {
			se.SetData("k", req.Params.Arguments["nonce"])
			s.Yield("handler")
			se.GetData("k")
			_ = se.GetLastActivity()
			se.UpdateActivity()
			_ = se.GetCreatedAt()
			_ = se.GetID()
		}
		return &mcp.CallToolResult{Content: []mcp.Content{mcp.NewTextContent("ok")}}, nil
	})
	var tasks []*sim.Task
	nClients := 2 + t.Draw(3)
	for k := 0; k < nClients; k++ {
		n := 1 + t.Draw(3)
		tasks = append(tasks, s.Go(fmt.Sprintf("client%d", k), func() {
			cl := w.newClient()
			if err := initClient(c, cl); err != nil {
				return
			}
			var inner []*sim.Task
			for j := 0; j < 2; j++ {
				inner = append(inner, s.Go(fmt.Sprintf("client%d/caller%d", k, j), func() {
					for i := 0; i < n; i++ {
						ctx, cancel := context.WithTimeout(context.Background(), time.Minute)
						cl.API.CallTool(ctx, callToolReq("touch", map[string]interface{}{"nonce": fmt.Sprintf("%d-%d-%d", k, j, i)}))
						cancel()
					}
				}))
			}
			s.WaitTasks(10*time.Minute, inner...)
			cl.API.Close()
		}))
	}
	// registrations change while clients initialize (capabilities are recomputed per initialize)
	tasks = append(tasks, s.Go("registrar", func() {
		w.Reg.RegisterPrompt(&mcp.Prompt{Name: "p"}, func(ctx context.Context, req *mcp.GetPromptRequest) (*mcp.GetPromptResult, error) {
			return &mcp.GetPromptResult{}, nil
		})
		s.Yield("registrar#mid")
		w.Reg.RegisterResource(&mcp.Resource{Name: "r", URI: "res://r"}, func(ctx context.Context, req *mcp.ReadResourceRequest) (mcp.ResourceContents, error) {
			return mcp.TextResourceContents{URI: "res://r"}, nil
		})
	}))
	s.WaitTasks(20*time.Minute, tasks...)
	s.Settle(10 * time.Millisecond)
}

// c20Errors: several peers hit the error paths of one server at the same time (unknown methods,
// missing and ill-typed parameters, unregistered names) next to valid requests.
func c20Errors(c *Ctx) {
	s, t := c.S, c.T
	mode := allModes[t.Draw(len(allModes))]
	c.SetPlan("mode", mode)
	w := newWorld(c, mode, "srv")
	w.register(func(r registrar) { registerC03(c, r, w.Count) })
	var tasks []*sim.Task
	for k := 0; k < 2+t.Draw(3); k++ {
		peer, err := newRawPeer(c, w, fmt.Sprintf("peer%d", k), false)
		if err != nil {
			return
		}
		n := 3 + t.Draw(5)
		tasks = append(tasks, s.Go(fmt.Sprintf("peer%d", k), func() {
			for i := 0; i < n; i++ {
				id := fmt.Sprintf("p%d-%d", k, i)
				var raw []byte
				switch c.T.Draw(7) {
				case 0:
					raw = rpcReq(id, "verif/unknown", nil)
				case 1:
					raw = rpcReq(id, "tools/call", map[string]interface{}{"name": 7})
				case 2:
					raw = rpcReq(id, "tools/call", map[string]interface{}{"name": "no-such-tool"})
				case 3:
					raw = rpcReq(id, "prompts/get", map[string]interface{}{})
				case 4:
					raw = rpcReq(id, "resources/read", map[string]interface{}{"uri": "res://none"})
				case 5:
					raw = rpcReq(id, "tools/call", map[string]interface{}{"name": "fail", "arguments": map[string]interface{}{"nonce": id}})
				default:
					raw = rpcReq(id, "ping", nil)
				}
				peer.post(raw)
				s.Yield("peer#next")
			}
			peer.close()
		}))
	}
	s.WaitTasks(10*time.Minute, tasks...)
	s.Settle(10 * time.Millisecond)
}
