// Package props holds one scenario+oracle file per property.
package props

import (
	"context"
	"encoding/json"
	"fmt"
	"sort"
	"strings"
	"sync"
	"time"

	mcp "trpc.group/trpc-go/trpc-mcp-go"
	"verif/sim"
)

// Ctx is what a scenario gets.
type Ctx struct {
	S     *sim.Sim
	T     *sim.Tape
	Tier  string
	Run   uint64                 // run index (enumerating scenarios derive their case from it)
	Plan  map[string]interface{} // readable description of what this run does (goes into replay files)
	mu    sync.Mutex
	seq   int
	stamp int64
	// History is free storage handed to the scenario's Post function (e.g. a porcupine history).
	History interface{}
}

// Stamp returns the next value of the run's global event sequence (strictly increasing; used to
// stamp invoke/return events of histories).
func (c *Ctx) Stamp() int64 {
	c.mu.Lock()
	defer c.mu.Unlock()
	c.stamp++
	return c.stamp
}

// Scenario is the workload + oracle of one property.
type Scenario struct {
	Prop string
	Opts sim.Options
	Run  func(c *Ctx)
	// Post turns library incidents recorded by the simulator (panics in library goroutines,
	// aborted handlers) into verdicts, for the properties that are about them.
	Post func(c *Ctx, res *sim.Result) []sim.Violation
	// Enum, when set, makes every run a fault enumeration: a fault-free pilot run records its I/O
	// points, then the run is repeated with one fault armed at each point (all kinds that apply).
	Enum *EnumSpec
}

// EnumSpec describes a fault enumeration.
type EnumSpec struct {
	Kinds       func(site string) []string // fault kinds applicable at an I/O point
	MaxPerPilot map[string]int             // per tier: cap on (point, kind) pairs per pilot (0 = all)
}

var registry = map[string]*Scenario{}

func register(s *Scenario) { registry[s.Prop] = s }

// Lookup returns the scenario of a property.
func Lookup(prop string) *Scenario { return registry[prop] }

// Props lists the registered properties.
func Props() []string {
	var out []string
	for k := range registry {
		out = append(out, k)
	}
	sort.Strings(out)
	return out
}

// Nonce returns a fresh unique string for this run.
func (c *Ctx) Nonce(prefix string) string {
	c.mu.Lock()
	defer c.mu.Unlock()
	c.seq++
	return fmt.Sprintf("%s%d", prefix, c.seq)
}

// SetPlan records a plan item.
func (c *Ctx) SetPlan(k string, v interface{}) {
	c.mu.Lock()
	if c.Plan == nil {
		c.Plan = map[string]interface{}{}
	}
	c.Plan[k] = v
	c.mu.Unlock()
}

// ---- logger ---------------------------------------------------------------------------------------

type nopLogger struct{}

func (nopLogger) Debug(args ...interface{})                 {}
func (nopLogger) Debugf(format string, args ...interface{}) {}
func (nopLogger) Info(args ...interface{})                  {}
func (nopLogger) Infof(format string, args ...interface{})  {}
func (nopLogger) Warn(args ...interface{})                  {}
func (nopLogger) Warnf(format string, args ...interface{})  {}
func (nopLogger) Error(args ...interface{})                 {}
func (nopLogger) Errorf(format string, args ...interface{}) {}
func (nopLogger) Fatal(args ...interface{})                 {}
func (nopLogger) Fatalf(format string, args ...interface{}) {}

func init() {
	mcp.SetDefaultLogger(nopLogger{})
}

// ---- nonce-echo registrations -------------------------------------------------------------------------

// Counter counts handler invocations per nonce.
type Counter struct {
	mu sync.Mutex
	m  map[string]int
}

func newCounter() *Counter { return &Counter{m: map[string]int{}} }

func (k *Counter) Inc(n string) {
	k.mu.Lock()
	k.m[n]++
	k.mu.Unlock()
}

func (k *Counter) Get(n string) int {
	k.mu.Lock()
	defer k.mu.Unlock()
	return k.m[n]
}

func (k *Counter) Snapshot() map[string]int {
	k.mu.Lock()
	defer k.mu.Unlock()
	out := map[string]int{}
	for a, b := range k.m {
		out[a] = b
	}
	return out
}

type toolFn = func(ctx context.Context, req *mcp.CallToolRequest) (*mcp.CallToolResult, error)
type promptFn = func(ctx context.Context, req *mcp.GetPromptRequest) (*mcp.GetPromptResult, error)
type resourceFn = func(ctx context.Context, req *mcp.ReadResourceRequest) (mcp.ResourceContents, error)
type resourcesFn = func(ctx context.Context, req *mcp.ReadResourceRequest) ([]mcp.ResourceContents, error)

// registrar adapts the registration API of the three server kinds (their handler parameter types
// are unexported named types, so a plain interface cannot describe them).
type registrar struct {
	RegisterTool     func(t *mcp.Tool, h toolFn)
	RegisterPrompt   func(p *mcp.Prompt, h promptFn)
	RegisterResource func(r *mcp.Resource, h resourceFn)
	UnregisterTools  func(names ...string) error
	// RegisterResources registers a resource whose handler returns several contents.
	RegisterResources func(r *mcp.Resource, h resourcesFn)
}

func regOf(x interface{}) registrar {
	switch s := x.(type) {
	case *mcp.Server:
		return registrar{
			func(t *mcp.Tool, h toolFn) { s.RegisterTool(t, h) },
			func(p *mcp.Prompt, h promptFn) { s.RegisterPrompt(p, h) },
			func(r *mcp.Resource, h resourceFn) { s.RegisterResource(r, h) },
			s.UnregisterTools,
			func(r *mcp.Resource, h resourcesFn) { s.RegisterResources(r, h) },
		}
	case *mcp.SSEServer:
		return registrar{
			func(t *mcp.Tool, h toolFn) { s.RegisterTool(t, h) },
			func(p *mcp.Prompt, h promptFn) { s.RegisterPrompt(p, h) },
			func(r *mcp.Resource, h resourceFn) { s.RegisterResource(r, h) },
			s.UnregisterTools,
			func(r *mcp.Resource, h resourcesFn) { s.RegisterResources(r, h) },
		}
	case *mcp.StdioServer:
		return registrar{
			func(t *mcp.Tool, h toolFn) { s.RegisterTool(t, h) },
			func(p *mcp.Prompt, h promptFn) { s.RegisterPrompt(p, h) },
			func(r *mcp.Resource, h resourceFn) { s.RegisterResource(r, h) },
			s.UnregisterTools,
			func(r *mcp.Resource, h resourcesFn) { s.RegisterResources(r, h) },
		}
	}
	panic(fmt.Sprintf("regOf: %T", x))
}

// handlerDelay optionally lets a handler take simulated time (chosen by the caller's arguments).
func handlerDelay(c *Ctx, args map[string]interface{}) {
	if d, ok := args["delay_ms"].(float64); ok && d > 0 {
		c.S.Sleep(time.Duration(d) * time.Millisecond)
	} else {
		c.S.Yield("handler")
	}
}

// registerEcho registers a tool "echo", a prompt "echo" and a resource "res://echo" whose answers
// are computed from the request's own arguments only.
func registerEcho(c *Ctx, r registrar, count *Counter) {
	r.RegisterTool(mcp.NewTool("echo", mcp.WithDescription("echo the nonce"), mcp.WithString("nonce")),
		func(ctx context.Context, req *mcp.CallToolRequest) (*mcp.CallToolResult, error) {
			n, _ := req.Params.Arguments["nonce"].(string)
			count.Inc("tool:" + n)
			handlerDelay(c, req.Params.Arguments)
			return &mcp.CallToolResult{Content: []mcp.Content{mcp.NewTextContent("r:" + n)}}, nil
		})
	r.RegisterPrompt(&mcp.Prompt{Name: "echo", Arguments: []mcp.PromptArgument{{Name: "nonce"}}},
		func(ctx context.Context, req *mcp.GetPromptRequest) (*mcp.GetPromptResult, error) {
			n := req.Params.Arguments["nonce"]
			count.Inc("prompt:" + n)
			c.S.Yield("handler")
			return &mcp.GetPromptResult{Description: "d:" + n, Messages: []mcp.PromptMessage{{Role: mcp.RoleUser, Content: mcp.NewTextContent("r:" + n)}}}, nil
		})
	r.RegisterResource(&mcp.Resource{Name: "echo", URI: "res://echo"},
		func(ctx context.Context, req *mcp.ReadResourceRequest) (mcp.ResourceContents, error) {
			n, _ := req.Params.Arguments["nonce"].(string)
			count.Inc("res:" + n)
			c.S.Yield("handler")
			return mcp.TextResourceContents{URI: "res://echo", Text: "r:" + n}, nil
		})
}

// ---- generic client abstraction -------------------------------------------------------------------------

// caller is the part of the three clients the scenarios use.
type caller interface {
	Initialize(ctx context.Context, req *mcp.InitializeRequest) (*mcp.InitializeResult, error)
	CallTool(ctx context.Context, req *mcp.CallToolRequest) (*mcp.CallToolResult, error)
	GetPrompt(ctx context.Context, req *mcp.GetPromptRequest) (*mcp.GetPromptResult, error)
	ReadResource(ctx context.Context, req *mcp.ReadResourceRequest) (*mcp.ReadResourceResult, error)
	ListTools(ctx context.Context, req *mcp.ListToolsRequest) (*mcp.ListToolsResult, error)
	ListPrompts(ctx context.Context, req *mcp.ListPromptsRequest) (*mcp.ListPromptsResult, error)
	ListResources(ctx context.Context, req *mcp.ListResourcesRequest) (*mcp.ListResourcesResult, error)
	Close() error
	GetState() mcp.State
}

func callToolReq(name string, args map[string]interface{}) *mcp.CallToolRequest {
	r := &mcp.CallToolRequest{}
	r.Params.Name = name
	r.Params.Arguments = args
	return r
}

func getPromptReq(name string, args map[string]string) *mcp.GetPromptRequest {
	r := &mcp.GetPromptRequest{}
	r.Params.Name = name
	r.Params.Arguments = args
	return r
}

func readResourceReq(uri string, args map[string]interface{}) *mcp.ReadResourceRequest {
	r := &mcp.ReadResourceRequest{}
	r.Params.URI = uri
	r.Params.Arguments = args
	return r
}

// textOf returns the text of the first text content item.
func textOf(res *mcp.CallToolResult) string {
	if res == nil {
		return "<nil>"
	}
	for _, it := range res.Content {
		if t, ok := it.(mcp.TextContent); ok {
			return t.Text
		}
		if t, ok := it.(*mcp.TextContent); ok {
			return t.Text
		}
	}
	return "<no text>"
}

func promptText(res *mcp.GetPromptResult) string {
	if res == nil || len(res.Messages) == 0 {
		return "<nil>"
	}
	if t, ok := res.Messages[0].Content.(mcp.TextContent); ok {
		return t.Text
	}
	if t, ok := res.Messages[0].Content.(*mcp.TextContent); ok {
		return t.Text
	}
	return "<no text>"
}

func resourceText(res *mcp.ReadResourceResult) string {
	if res == nil || len(res.Contents) == 0 {
		return "<nil>"
	}
	switch t := res.Contents[0].(type) {
	case mcp.TextResourceContents:
		return t.Text
	case *mcp.TextResourceContents:
		return t.Text
	}
	return "<no text>"
}

func jsonOf(v interface{}) string {
	b, err := json.Marshal(v)
	if err != nil {
		return "<" + err.Error() + ">"
	}
	return string(b)
}

func short(s string) string {
	s = strings.ReplaceAll(s, "\n", "\\n")
	if len(s) > 160 {
		return s[:160] + "…"
	}
	return s
}

var clientInfo = mcp.Implementation{Name: "verif-client", Version: "1"}
