package props

import (
	"context"
	"encoding/json"
	"fmt"
	"net/http"
	"strings"
	"sync"
	"time"

	mcp "trpc.group/trpc-go/trpc-mcp-go"
)

// rawPeer is the harness's own minimal MCP endpoint for all three server kinds: it sends arbitrary
// bytes and collects whatever the server emits in reaction.  It shares no code with the library.
type rawPeer struct {
	c        *Ctx
	w        *World
	kind     string // streamable | legacy-sse | stdio
	sid      string
	stream   *RawStream // legacy SSE stream
	endpoint string
	link     *stdioLink
	evOff    int
	lineOff  int
	name     string
	mu       sync.Mutex
	posted   [][]byte
}

type rawResult struct {
	Status   int // HTTP status (0 for stdio)
	Header   http.Header
	Frames   [][]byte // JSON-RPC frames emitted in reaction (body, SSE events or stdout lines)
	Problems []string // framing problems
	Err      error
	Body     []byte
}

// newRawPeer connects a raw peer (with a completed handshake unless skipInit).
func newRawPeer(c *Ctx, w *World, name string, skipInit bool) (*rawPeer, error) {
	p := &rawPeer{c: c, w: w, name: name}
	switch w.Mode {
	case "legacy-sse":
		p.kind = "legacy-sse"
		rs, err := rawOpenStream(c, name+"/stream", "GET", "http://"+w.Host+"/mcp/sse", map[string]string{"Accept": "text/event-stream"}, nil)
		if err != nil {
			return nil, err
		}
		p.stream = rs
		c.S.Quiesce()
		// the endpoint event may be held up by the network (a partition that heals later): wait for
		// it in simulated time like a real peer would, up to a minute
		for i := 0; i < 1200; i++ {
			for _, ev := range rs.WireEvents() {
				if ev.Type == "endpoint" {
					p.endpoint = ev.Data
				}
			}
			if p.endpoint != "" || rs.Ended() {
				break
			}
			c.S.Settle(50 * time.Millisecond)
		}
		if p.endpoint == "" {
			return nil, fmt.Errorf("no endpoint event on the legacy stream")
		}
		p.evOff = len(rs.WireEvents())
	case "stdio":
		p.kind = "stdio"
		cl := w.newStdioClient(name) // gives us a process; we talk to its pipes directly and never use the client
		p.link = cl.Link
	default:
		p.kind = "streamable"
	}
	if skipInit {
		return p, nil
	}
	r := p.exchange(rpcReq("init-"+name, "initialize", initParams("2025-03-26")), nil)
	if r.Err != nil {
		return nil, r.Err
	}
	if p.kind == "streamable" {
		p.sid = r.Header.Get("Mcp-Session-Id")
	}
	if len(r.Frames) != 1 {
		return nil, fmt.Errorf("initialize: %d frames, status %d", len(r.Frames), r.Status)
	}
	p.exchange(rpcNotif("notifications/initialized", nil), nil)
	return p, nil
}

// exchange sends raw bytes as one message and returns what came back once the system is quiescent.
func (p *rawPeer) exchange(raw []byte, hdr map[string]string) rawResult {
	c := p.c
	switch p.kind {
	case "streamable":
		h := withSession(jsonHdr, p.sid)
		for k, v := range hdr {
			if v == "<absent>" {
				delete(h, k)
			} else {
				h[k] = v
			}
		}
		r := rawDo(c, context.Background(), "POST", "http://"+p.w.Host+"/mcp", h, raw)
		if r.Err != nil {
			return rawResult{Err: r.Err}
		}
		out := rawResult{Status: r.Status, Header: r.Header, Body: r.Body}
		ct := r.Header.Get("Content-Type")
		switch {
		case strings.Contains(ct, "text/event-stream"):
			var sp SSEParser
			for _, ev := range sp.Feed(r.Body) {
				out.Frames = append(out.Frames, []byte(ev.Data))
			}
			if pend := sp.Pending(); pend != "" {
				out.Problems = append(out.Problems, "unterminated SSE event: "+short(pend))
			}
		case strings.Contains(ct, "application/json"):
			if len(strings.TrimSpace(string(r.Body))) > 0 {
				out.Frames = append(out.Frames, r.Body)
			}
		}
		return out
	case "legacy-sse":
		r := rawDo(c, context.Background(), "POST", "http://"+p.w.Host+p.endpoint, map[string]string{"Content-Type": "application/json"}, raw)
		if r.Err != nil {
			return rawResult{Err: r.Err}
		}
		c.S.Quiesce()
		out := rawResult{Status: r.Status, Header: r.Header, Body: r.Body}
		if b := strings.TrimSpace(string(r.Body)); strings.HasPrefix(b, "{") {
			// the legacy endpoint may put a JSON-RPC error into the POST's own body
			out.Frames = append(out.Frames, r.Body)
		}
		evs := p.stream.WireEvents()
		for _, ev := range evs[p.evOff:] {
			out.Frames = append(out.Frames, []byte(ev.Data))
		}
		p.evOff = len(evs)
		return out
	case "stdio":
		w := p.link.ToSrv.Writer()
		if _, err := w.Write(append(append([]byte(nil), raw...), '\n')); err != nil {
			return rawResult{Err: err}
		}
		c.S.Quiesce()
		out := rawResult{}
		b := p.link.FromSrv.Bytes()
		lines, problems := strictLines(b)
		out.Problems = problems
		for _, l := range lines[min(p.lineOff, len(lines)):] {
			out.Frames = append(out.Frames, l)
		}
		p.lineOff = len(lines)
		return out
	}
	return rawResult{Err: fmt.Errorf("unknown peer kind")}
}

// post sends one message without waiting for quiescence (several may be in flight at once); what
// comes back is collected by allFrames.
func (p *rawPeer) post(raw []byte) {
	c := p.c
	switch p.kind {
	case "streamable":
		r := rawDo(c, context.Background(), "POST", "http://"+p.w.Host+"/mcp", withSession(jsonHdr, p.sid), raw)
		if r.Err == nil {
			p.mu.Lock()
			ct := r.Header.Get("Content-Type")
			if strings.Contains(ct, "text/event-stream") {
				var sp SSEParser
				for _, ev := range sp.Feed(r.Body) {
					p.posted = append(p.posted, []byte(ev.Data))
				}
			} else if len(strings.TrimSpace(string(r.Body))) > 0 {
				p.posted = append(p.posted, r.Body)
			}
			p.mu.Unlock()
		}
	case "legacy-sse":
		rawDo(c, context.Background(), "POST", "http://"+p.w.Host+p.endpoint, map[string]string{"Content-Type": "application/json"}, raw)
	case "stdio":
		p.link.ToSrv.Writer().Write(append(append([]byte(nil), raw...), '\n'))
	}
}

// allFrames returns every frame received since the last exchange/allFrames call.
func (p *rawPeer) allFrames() [][]byte {
	var out [][]byte
	switch p.kind {
	case "streamable":
		p.mu.Lock()
		out = p.posted
		p.posted = nil
		p.mu.Unlock()
	case "legacy-sse":
		evs := p.stream.WireEvents()
		for _, ev := range evs[min(p.evOff, len(evs)):] {
			out = append(out, []byte(ev.Data))
		}
		p.evOff = len(evs)
	case "stdio":
		lines, _ := strictLines(p.link.FromSrv.Bytes())
		out = append(out, lines[min(p.lineOff, len(lines)):]...)
		p.lineOff = len(lines)
	}
	return out
}

func (p *rawPeer) close() {
	if p.stream != nil {
		p.stream.Close()
	}
	if p.link != nil {
		p.link.ToSrv.Writer().Close()
	}
}

// ping sends a well-formed ping and reports whether a proper answer came back.
func (p *rawPeer) ping(id string) error {
	r := p.exchange(rpcReq(id, "ping", nil), nil)
	if r.Err != nil {
		return r.Err
	}
	for _, f := range r.Frames {
		fi, _ := parseFrame(f)
		if fi.Kind == "response" && fi.ID == string(mustJSON(id)) {
			return nil
		}
	}
	return fmt.Errorf("no answer to a well-formed ping (status %d, %d frames, body %q)", r.Status, len(r.Frames), short(string(r.Body)))
}

var _ = json.Marshal
var _ = mcp.MethodPing
