package props

import (
	"context"
	"fmt"
	"net/http"
	"sort"
	"strings"
	"time"

	mcp "trpc.group/trpc-go/trpc-mcp-go"
	"verif/sim"
)

// C13 — request-scoped context never bleeds between concurrent requests.

func init() {
	register(&Scenario{Prop: "C13", Run: runC13, Opts: sim.Options{MaxSteps: 100000, MaxSimTime: 30 * time.Minute}})
}

type c13Key string

func runC13(c *Ctx) {
	s, t := c.S, c.T
	mode := []string{"post-sse", "json", "stateless", "legacy-sse"}[t.Draw(4)]
	c.SetPlan("mode", mode)
	nFuncs := 1 + t.Draw(3)
	if mode == "legacy-sse" {
		nFuncs = 1
	}
	// context functions: #i stores the request's token under key i and appends i to the order trace
	mkFunc := func(i int) func(ctx context.Context, r *http.Request) context.Context {
		return func(ctx context.Context, r *http.Request) context.Context {
			s.Yield("ctxfunc")
			order, _ := ctx.Value(c13Key("order")).(string)
			ctx = context.WithValue(ctx, c13Key("order"), order+fmt.Sprint(i))
			return context.WithValue(ctx, c13Key(fmt.Sprintf("tok%d", i)), r.Header.Get("X-Token"))
		}
	}
	wantOrder := ""
	for i := 0; i < nFuncs; i++ {
		wantOrder += fmt.Sprint(i)
	}
	tokenOf := func(ctx context.Context) string {
		v, _ := ctx.Value(c13Key("tok0")).(string)
		return v
	}
	// what middlewares and filters saw, per request nonce
	type seenT struct{ where, nonce, token string }
	var seen []seenT
	note := func(where, nonce, token string) {
		c.mu.Lock()
		seen = append(seen, seenT{where, nonce, token})
		c.mu.Unlock()
	}
	mw := func(next mcp.HandlerFunc) mcp.HandlerFunc {
		return func(ctx context.Context, req *mcp.JSONRPCRequest) (mcp.JSONRPCMessage, error) {
			if pm, ok := req.Params.(map[string]interface{}); ok {
				if args, ok := pm["arguments"].(map[string]interface{}); ok {
					if n, ok := args["nonce"].(string); ok {
						// per-request use of the session's data: written here, read by the handler
						if se, ok := mcp.GetSessionFromContext(ctx); ok && se != nil {
							se.SetData("token", tokenOf(ctx))
						}
						note("middleware-before", n, tokenOf(ctx))
						s.Yield("mw")
						res, err := next(ctx, req)
						note("middleware-after", n, tokenOf(ctx))
						return res, err
					}
				}
			}
			// every other request (lists included) also spends time on both sides of the chain, so
			// that requests of different clients overlap between "the handler has returned" and
			// "the answer is encoded"
			s.Yield("mw#before")
			res, err := next(ctx, req)
			s.Yield("mw#after")
			if strings.HasSuffix(req.Method, "/list") {
				s.Yield("mw#after2")
			}
			return res, err
		}
	}
	visible := func(ctx context.Context, name string) bool {
		s.Yield("filter")
		if strings.HasPrefix(name, "only-") {
			return name == "only-"+tokenOf(ctx)
		}
		return true
	}
	toolFilter := func(ctx context.Context, in []*mcp.Tool) []*mcp.Tool {
		var out []*mcp.Tool
		for _, x := range in {
			if visible(ctx, x.Name) {
				out = append(out, x)
			}
		}
		return out
	}
	promptFilter := func(ctx context.Context, in []*mcp.Prompt) []*mcp.Prompt {
		var out []*mcp.Prompt
		for _, x := range in {
			if visible(ctx, x.Name) {
				out = append(out, x)
			}
		}
		return out
	}
	resFilter := func(ctx context.Context, in []*mcp.Resource) []*mcp.Resource {
		var out []*mcp.Resource
		for _, x := range in {
			if visible(ctx, x.Name) {
				out = append(out, x)
			}
		}
		return out
	}
	var srvOpts []mcp.ServerOption
	var sseOpts []mcp.SSEOption
	for i := 0; i < nFuncs; i++ {
		srvOpts = append(srvOpts, mcp.WithHTTPContextFunc(mkFunc(i)))
	}
	srvOpts = append(srvOpts, mcp.WithMiddleware(mw), mcp.WithToolListFilter(toolFilter), mcp.WithPromptListFilter(promptFilter), mcp.WithResourceListFilter(resFilter))
	sseOpts = append(sseOpts, mcp.WithSSEContextFunc(mkFunc(0)), mcp.WithSSEMiddleware(mw), mcp.WithSSEToolListFilter(toolFilter),
		mcp.WithSSEPromptListFilter(promptFilter), mcp.WithSSEResourceListFilter(resFilter))
	w := newWorldOpts(c, mode, "srv", srvOpts, sseOpts)
	s.Net.Faults = sim.NetFaults{Delay: t.Pick(0, 10), ShortRead: t.Pick(0, 20)}
	nClients := 2 + t.Draw(3)
	tokens := make([]string, nClients)
	for i := range tokens {
		tokens[i] = fmt.Sprintf("T%d", i)
	}
	var serverHandle interface{} = w.Srv
	if w.SSE != nil {
		serverHandle = w.SSE
	}
	w.Reg.RegisterTool(mcp.NewTool("whoami", mcp.WithString("nonce")), func(ctx context.Context, req *mcp.CallToolRequest) (*mcp.CallToolResult, error) {
		handlerDelay(c, req.Params.Arguments)
		sid := ""
		if se, ok := mcp.GetSessionFromContext(ctx); ok && se != nil {
			sid = se.GetID()
		}
		csid := ""
		if se := mcp.ClientSessionFromContext(ctx); se != nil {
			csid = se.GetID()
		}
		sessTok := "<none>"
		if se, ok := mcp.GetSessionFromContext(ctx); ok && se != nil {
			if v, ok := se.GetData("token"); ok {
				sessTok, _ = v.(string)
			}
		}
		srvOK := mcp.GetServerFromContext(ctx) == serverHandle
		_, hasSender := mcp.GetNotificationSender(ctx)
		toks := []string{}
		for i := 0; i < nFuncs; i++ {
			v, _ := ctx.Value(c13Key(fmt.Sprintf("tok%d", i))).(string)
			toks = append(toks, v)
		}
		order, _ := ctx.Value(c13Key("order")).(string)
		return &mcp.CallToolResult{Content: []mcp.Content{mcp.NewTextContent(fmt.Sprintf("tokens=%s;order=%s;sid=%s;csid=%s;server=%v;sender=%v;sessiondata=%s;",
			strings.Join(toks, ","), order, sid, csid, srvOK, hasSender, sessTok))}}, nil
	})
	for _, tok := range tokens {
		name := "only-" + tok
		w.Reg.RegisterTool(mcp.NewTool(name), func(ctx context.Context, req *mcp.CallToolRequest) (*mcp.CallToolResult, error) {
			return &mcp.CallToolResult{}, nil
		})
		w.Reg.RegisterPrompt(&mcp.Prompt{Name: name}, func(ctx context.Context, req *mcp.GetPromptRequest) (*mcp.GetPromptResult, error) {
			return &mcp.GetPromptResult{}, nil
		})
		w.Reg.RegisterResource(&mcp.Resource{Name: name, URI: "res://" + name}, func(ctx context.Context, req *mcp.ReadResourceRequest) (mcp.ResourceContents, error) {
			return mcp.TextResourceContents{URI: "res://" + name}, nil
		})
	}
	w.Reg.RegisterTool(mcp.NewTool("public"), func(ctx context.Context, req *mcp.CallToolRequest) (*mcp.CallToolResult, error) {
		return &mcp.CallToolResult{}, nil
	})
	nonceOwner := map[string]string{}
	var tasks []*sim.Task
	for i, tok := range tokens {
		cl := w.newClient(mcp.WithHTTPHeaders(http.Header{"X-Token": {tok}}))
		nOps := 2 + t.Draw(4)
		kinds := make([]int, nOps)
		for j := range kinds {
			kinds[j] = t.Draw(4)
		}
		tasks = append(tasks, s.Go(fmt.Sprintf("client%d", i), func() {
			if err := initClient(c, cl); err != nil {
				s.Violate("C13|init-failed|"+mode, "Initialize failed: %v", err)
				return
			}
			for _, k := range kinds {
				ctx, cancel := context.WithTimeout(context.Background(), 5*time.Minute)
				switch k {
				case 0:
					nonce := c.Nonce("n")
					c.mu.Lock()
					nonceOwner[nonce] = tok
					c.mu.Unlock()
					res, err := cl.API.CallTool(ctx, callToolReq("whoami", map[string]interface{}{"nonce": nonce, "delay_ms": float64(c.T.Pick(0, 0, 2))}))
					if err != nil {
						s.Violate("C13|call-failed|"+mode+"|"+errClass(err), "whoami failed: %v", err)
						break
					}
					got := textOf(res)
					wantToks := strings.TrimSuffix(strings.Repeat(tok+",", nFuncs), ",")
					if !strings.Contains(got, "tokens="+wantToks+";") {
						s.Violate("C13|token-bleed|handler|"+mode, "client %s (token %s) handler saw %q", cl.Name, tok, got)
					}
					if !strings.Contains(got, ";order="+wantOrder+";") {
						s.Violate("C13|ctxfunc-order|"+mode, "context functions ran in order %q, registered order is %q", got, wantOrder)
					}
					if cl.Kind == "streamable" && mode != "stateless" {
						sid := cl.HTTP.GetSessionID()
						if !strings.Contains(got, ";sid="+sid+";") || !strings.Contains(got, ";csid="+sid+";") {
							s.Violate("C13|session-bleed|"+mode, "client %s has session %s, its handler saw %q", cl.Name, sid, got)
						}
					}
					if !strings.Contains(got, ";sessiondata="+tok+";") {
						s.Violate("C13|session-data-bleed|"+mode, "client with token %s: the handler read %q from its request's session data (written by the middleware of the same request)", tok, got)
					}
					if !strings.Contains(got, ";server=true;") {
						s.Violate("C13|server-handle|"+mode, "handler did not see its server in the context: %q", got)
					}
					if mode != "legacy-sse" && !strings.Contains(got, ";sender=true;") {
						s.Violate("C13|sender-missing|"+mode, "handler did not get a notification sender: %q", got)
					}
				case 1, 2, 3:
					var names []string
					var err error
					what := []string{"", "tools", "prompts", "resources"}[k]
					switch k {
					case 1:
						var r *mcp.ListToolsResult
						r, err = cl.API.ListTools(ctx, &mcp.ListToolsRequest{})
						if err == nil {
							for _, x := range r.Tools {
								names = append(names, x.Name)
							}
						}
					case 2:
						var r *mcp.ListPromptsResult
						r, err = cl.API.ListPrompts(ctx, &mcp.ListPromptsRequest{})
						if err == nil {
							for _, x := range r.Prompts {
								names = append(names, x.Name)
							}
						}
					case 3:
						var r *mcp.ListResourcesResult
						r, err = cl.API.ListResources(ctx, &mcp.ListResourcesRequest{})
						if err == nil {
							for _, x := range r.Resources {
								names = append(names, x.Name)
							}
						}
					}
					if err != nil {
						s.Violate("C13|list-failed|"+mode+"|"+errClass(err), "list %s failed: %v", what, err)
						break
					}
					sort.Strings(names)
					own := false
					for _, n := range names {
						if strings.HasPrefix(n, "only-") {
							if n == "only-"+tok {
								own = true
							} else {
								s.Violate("C13|filter-bleed|"+what+"|"+mode, "client with token %s sees %q in its %s list: %v", tok, n, what, names)
							}
						}
					}
					if !own {
						s.Violate("C13|filter-hides-own|"+what+"|"+mode, "client with token %s does not see only-%s in its %s list: %v", tok, tok, what, names)
					}
				}
				cancel()
			}
			cl.API.Close()
		}))
	}
	for _, a := range s.WaitTasks(25*time.Minute, tasks...) {
		s.Violate("C13|stuck|"+mode, "%s did not finish", a.Name)
	}
	for _, x := range seen {
		if own := nonceOwner[x.nonce]; own != x.token {
			s.Violate("C13|token-bleed|"+x.where+"|"+mode, "%s of request %s (token %s) saw token %q", x.where, x.nonce, own, x.token)
		}
	}
	if len(seen) > 0 {
		s.Probe("c13.middleware_observations")
	}
}
