package props

import (
	"bytes"
	"context"
	"encoding/json"
	"fmt"
	"io"
	"net/http"
	"strings"
	"sync"

	"verif/sim"
)

// ---- reference SSE parser (WHATWG "event stream interpretation"), independent of the library --------

// SSEEvent is one dispatched event.
type SSEEvent struct {
	ID    string
	Type  string
	Data  string
	HasID bool
	Raw   string // the raw block (for diagnostics)
}

// SSEParser incrementally parses a text/event-stream.
type SSEParser struct {
	buf      []byte
	dataBuf  []string
	evType   string
	lastID   string
	idSet    bool
	raw      strings.Builder
	Comments []string
	Events   []SSEEvent
	sawCR    bool
}

// Feed adds bytes and returns the events completed by them.
func (p *SSEParser) Feed(b []byte) []SSEEvent {
	start := len(p.Events)
	p.buf = append(p.buf, b...)
	for {
		// find end of line: CRLF, LF or CR
		i := bytes.IndexAny(p.buf, "\r\n")
		if i < 0 {
			break
		}
		adv := i + 1
		if p.buf[i] == '\r' {
			if i+1 >= len(p.buf) {
				// a CR at the very end may be the first half of CRLF: wait for more unless stream ends
				break
			}
			if p.buf[i+1] == '\n' {
				adv = i + 2
			}
		}
		line := string(p.buf[:i])
		p.buf = p.buf[adv:]
		p.line(line)
	}
	return p.Events[start:]
}

// Pending reports unterminated bytes (an incomplete line or event at the end of the stream).
func (p *SSEParser) Pending() string {
	s := string(p.buf)
	if len(p.dataBuf) > 0 || p.evType != "" {
		s += "|unterminated event: " + p.raw.String()
	}
	return s
}

func (p *SSEParser) line(line string) {
	if line == "" {
		// dispatch
		if len(p.dataBuf) == 0 {
			p.evType = ""
			p.idSet = false
			p.raw.Reset()
			return
		}
		ev := SSEEvent{ID: p.lastID, HasID: p.idSet, Type: p.evType, Data: strings.Join(p.dataBuf, "\n"), Raw: p.raw.String()}
		if ev.Type == "" {
			ev.Type = "message"
		}
		p.Events = append(p.Events, ev)
		p.dataBuf = nil
		p.evType = ""
		p.idSet = false
		p.raw.Reset()
		return
	}
	p.raw.WriteString(line)
	p.raw.WriteString("\n")
	if strings.HasPrefix(line, ":") {
		p.Comments = append(p.Comments, line[1:])
		return
	}
	field, value := line, ""
	if i := strings.IndexByte(line, ':'); i >= 0 {
		field, value = line[:i], line[i+1:]
		value = strings.TrimPrefix(value, " ")
	}
	switch field {
	case "event":
		p.evType = value
	case "data":
		p.dataBuf = append(p.dataBuf, value)
	case "id":
		if !strings.Contains(value, "\x00") {
			p.lastID = value
			p.idSet = true
		}
	case "retry":
	default:
		// unknown field: ignored by the standard
	}
}

// ---- raw HTTP peer ---------------------------------------------------------------------------------------

// RawResp is a raw exchange result.
type RawResp struct {
	Status int
	Header http.Header
	Body   []byte // complete body (non-streaming use)
	Err    error
	Conn   *sim.Conn
}

// rawDo performs one complete exchange (reads the body to its end) on the simulated network.
func rawDo(c *Ctx, ctx context.Context, method, url string, hdr map[string]string, body []byte) *RawResp {
	var rd io.Reader
	if body != nil {
		rd = bytes.NewReader(body)
	}
	req, err := http.NewRequestWithContext(ctx, method, url, rd)
	if err != nil {
		return &RawResp{Err: err}
	}
	for k, v := range hdr {
		req.Header.Set(k, v)
	}
	resp, err := c.S.Net.RoundTrip(req)
	if err != nil {
		return &RawResp{Err: err}
	}
	b, err := io.ReadAll(resp.Body)
	resp.Body.Close()
	out := &RawResp{Status: resp.StatusCode, Header: resp.Header, Body: b, Err: err}
	return out
}

// RawStream is an open streaming response read by a raw peer.
type RawStream struct {
	c      *Ctx
	Status int
	Header http.Header
	body   io.ReadCloser
	cancel context.CancelFunc
	mu     sync.Mutex
	parser SSEParser
	events []SSEEvent
	EOF    bool
	Err    error
	Task   *sim.Task
	Conn   *sim.Conn
	bytes  int
}

// WireEvents parses everything the server wrote on this stream's connection (whether or not the
// peer has read it yet) with the reference parser.
func (rs *RawStream) WireEvents() []SSEEvent {
	var p SSEParser
	return p.Feed(rs.Conn.Bytes())
}

// rawOpenStream opens a streaming exchange; the returned stream is read by a background task.
func rawOpenStream(c *Ctx, name, method, url string, hdr map[string]string, body []byte) (*RawStream, error) {
	ctx, cancel := context.WithCancel(context.Background())
	var rd io.Reader
	if body != nil {
		rd = bytes.NewReader(body)
	}
	req, err := http.NewRequestWithContext(ctx, method, url, rd)
	if err != nil {
		cancel()
		return nil, err
	}
	for k, v := range hdr {
		req.Header.Set(k, v)
	}
	resp, err := c.S.Net.RoundTrip(req)
	if err != nil {
		cancel()
		return nil, err
	}
	rs := &RawStream{c: c, Status: resp.StatusCode, Header: resp.Header, body: resp.Body, cancel: cancel, Conn: sim.ConnOf(resp.Body)}
	rs.Task = c.S.Go(name, func() {
		buf := make([]byte, 8192)
		for {
			n, err := rs.body.Read(buf)
			rs.mu.Lock()
			if n > 0 {
				rs.bytes += n
				rs.events = append(rs.events, rs.parser.Feed(buf[:n])...)
			}
			if err != nil {
				if err == io.EOF {
					rs.EOF = true
				} else {
					rs.Err = err
				}
				rs.mu.Unlock()
				return
			}
			rs.mu.Unlock()
		}
	})
	return rs, nil
}

// Events returns the events received so far.
func (rs *RawStream) Events() []SSEEvent {
	rs.mu.Lock()
	defer rs.mu.Unlock()
	return append([]SSEEvent(nil), rs.events...)
}

// Ended reports whether the stream has ended (EOF or error).
func (rs *RawStream) Ended() bool {
	rs.mu.Lock()
	defer rs.mu.Unlock()
	return rs.EOF || rs.Err != nil
}

// Close closes the stream from the client side.
func (rs *RawStream) Close() {
	rs.body.Close()
	rs.cancel()
}

// ---- JSON helpers ----------------------------------------------------------------------------------------------

func mustJSON(v interface{}) []byte {
	b, err := json.Marshal(v)
	if err != nil {
		panic(err)
	}
	return b
}

func rpcReq(id interface{}, method string, params interface{}) []byte {
	m := map[string]interface{}{"jsonrpc": "2.0", "id": id, "method": method}
	if params != nil {
		m["params"] = params
	}
	return mustJSON(m)
}

func rpcNotif(method string, params interface{}) []byte {
	m := map[string]interface{}{"jsonrpc": "2.0", "method": method}
	if params != nil {
		m["params"] = params
	}
	return mustJSON(m)
}

func initParams(version string) map[string]interface{} {
	return map[string]interface{}{"protocolVersion": version, "clientInfo": map[string]interface{}{"name": "raw", "version": "0"}, "capabilities": map[string]interface{}{}}
}

var jsonHdr = map[string]string{"Content-Type": "application/json", "Accept": "application/json, text/event-stream"}
var jsonOnlyHdr = map[string]string{"Content-Type": "application/json", "Accept": "application/json"}

func withSession(h map[string]string, sid string) map[string]string {
	out := map[string]string{}
	for k, v := range h {
		out[k] = v
	}
	if sid != "" {
		out["Mcp-Session-Id"] = sid
	}
	return out
}

// decodeFrames extracts the JSON-RPC messages of a response: a JSON body or the events of an SSE body.
func decodeFrames(r *RawResp) ([]map[string]interface{}, []string) {
	var problems []string
	var out []map[string]interface{}
	ct := r.Header.Get("Content-Type")
	if strings.Contains(ct, "text/event-stream") {
		var p SSEParser
		for _, ev := range p.Feed(r.Body) {
			var m map[string]interface{}
			if err := json.Unmarshal([]byte(ev.Data), &m); err != nil {
				problems = append(problems, fmt.Sprintf("SSE event data is not a JSON object: %v: %q", err, short(ev.Data)))
				continue
			}
			out = append(out, m)
		}
		if pend := p.Pending(); pend != "" {
			problems = append(problems, "unterminated SSE data at end of body: "+short(pend))
		}
		return out, problems
	}
	if len(bytes.TrimSpace(r.Body)) == 0 {
		return nil, nil
	}
	var m map[string]interface{}
	dec := json.NewDecoder(bytes.NewReader(r.Body))
	dec.UseNumber()
	if err := dec.Decode(&m); err != nil {
		problems = append(problems, fmt.Sprintf("body is not a JSON object: %v: %q", err, short(string(r.Body))))
		return nil, problems
	}
	out = append(out, m)
	return out, problems
}
