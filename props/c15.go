package props

import (
	"context"
	"fmt"
	"net/http"
	"strings"
	"time"

	mcp "trpc.group/trpc-go/trpc-mcp-go"
	"verif/sim"
)

// C15 — middlewares wrap every request as an onion, each exactly once.
//
// The chain is enumerated from the run index: all 781 chains of length 0..4 over the behaviours
// {pass, modify-request, modify-result, short-circuit, fail}; option form, server kind, method and
// concurrency come from the tape.

func init() {
	register(&Scenario{Prop: "C15", Run: runC15, Opts: sim.Options{MaxSteps: 60000, MaxSimTime: 30 * time.Minute}})
}

type c15ReqKey struct{}

var c15Behaviours = []string{"pass", "modreq", "modres", "short", "fail"}

// c15Chain decodes chain number k (0..780): lengths 0,1,2,3,4 hold 1,5,25,125,625 chains.
func c15Chain(k int) []string {
	k %= 781
	n, size := 0, 1
	for k >= size {
		k -= size
		n++
		size *= 5
	}
	chain := make([]string, n)
	for i := n - 1; i >= 0; i-- {
		chain[i] = c15Behaviours[k%5]
		k /= 5
	}
	return chain
}

// c15Expect is the reference interpreter of the statement: the trace and the outcome for one request.
func c15Expect(chain []string, nonce string) (trace []string, result string, errMsg string) {
	stop := -1
	for i, b := range chain {
		trace = append(trace, fmt.Sprintf("b%d", i+1))
		if b == "short" || b == "fail" {
			stop = i
			break
		}
	}
	inner := len(chain)
	if stop >= 0 {
		inner = stop
		if chain[stop] == "short" {
			result = fmt.Sprintf("sc%d", stop+1)
		} else {
			errMsg = fmt.Sprintf("mw%d failed", stop+1)
		}
	} else {
		trace = append(trace, "h")
		tags := ""
		for i, b := range chain {
			if b == "modreq" {
				tags += fmt.Sprint(i + 1)
			}
		}
		result = "h:" + nonce + ":" + tags
	}
	for i := inner - 1; i >= 0; i-- {
		trace = append(trace, fmt.Sprintf("a%d", i+1))
		if chain[i] == "modres" && errMsg == "" {
			result += fmt.Sprintf("+%d", i+1)
		}
	}
	return
}

func runC15(c *Ctx) {
	s, t := c.S, c.T
	chain := c15Chain(int(c.Run))
	mode := []string{"post-sse", "json", "stateless-json", "legacy-sse"}[t.Draw(4)]
	repeated := t.Bool(50)
	c.SetPlan("chain", chain)
	c.SetPlan("mode", mode)
	c.SetPlan("repeated_option", repeated)
	traces := map[string][]string{}
	sessionSeen := map[string]map[string]bool{}
	ctxSeen := map[string]map[string]bool{}
	var notifSeen []string
	add := func(nonce, ev string) {
		c.mu.Lock()
		traces[nonce] = append(traces[nonce], ev)
		c.mu.Unlock()
	}
	nonceOf := func(req *mcp.JSONRPCRequest) string {
		if pm, ok := req.Params.(map[string]interface{}); ok {
			if args, ok := pm["arguments"].(map[string]interface{}); ok {
				n, _ := args["nonce"].(string)
				return n
			}
		}
		return ""
	}
	// see records the session and the context value a stage of the chain observes
	see := func(ctx context.Context, nonce, stage string) {
		// both public accessors of the session (transport session, client session of the call)
		var sids []string
		if se, ok := mcp.GetSessionFromContext(ctx); ok && se != nil {
			sids = append(sids, se.GetID())
		}
		if se := mcp.ClientSessionFromContext(ctx); se != nil {
			sids = append(sids, se.GetID())
		}
		val, _ := ctx.Value(c15ReqKey{}).(string)
		c.mu.Lock()
		if sessionSeen[nonce] == nil {
			sessionSeen[nonce] = map[string]bool{}
			ctxSeen[nonce] = map[string]bool{}
		}
		for _, sid := range sids {
			sessionSeen[nonce][sid] = true
		}
		ctxSeen[nonce][stage+"="+val] = val == nonce
		c.mu.Unlock()
	}
	var mws []mcp.Middleware
	for i, b := range chain {
		idx := i + 1
		mws = append(mws, func(next mcp.HandlerFunc) mcp.HandlerFunc {
			return func(ctx context.Context, req *mcp.JSONRPCRequest) (mcp.JSONRPCMessage, error) {
				if strings.HasPrefix(req.Method, "notifications/") {
					c.mu.Lock()
					notifSeen = append(notifSeen, req.Method)
					c.mu.Unlock()
				}
				nonce := nonceOf(req)
				if nonce == "" || req.Method != "tools/call" {
					return next(ctx, req)
				}
				add(nonce, fmt.Sprintf("b%d", idx))
				see(ctx, nonce, fmt.Sprintf("b%d", idx))
				s.Yield("mw")
				switch b {
				case "short":
					return &mcp.CallToolResult{Content: []mcp.Content{mcp.NewTextContent(fmt.Sprintf("sc%d", idx))}}, nil
				case "fail":
					return nil, fmt.Errorf("mw%d failed", idx)
				case "modreq":
					pm := req.Params.(map[string]interface{})
					args := pm["arguments"].(map[string]interface{})
					tag, _ := args["tag"].(string)
					args["tag"] = tag + fmt.Sprint(idx)
				}
				res, err := next(ctx, req)
				add(nonce, fmt.Sprintf("a%d", idx))
				see(ctx, nonce, fmt.Sprintf("a%d", idx))
				if b == "modres" && err == nil {
					if r, ok := res.(*mcp.CallToolResult); ok && len(r.Content) > 0 {
						if tc, ok := r.Content[0].(mcp.TextContent); ok {
							cp := *r
							cp.Content = []mcp.Content{mcp.NewTextContent(tc.Text + fmt.Sprintf("+%d", idx))}
							return &cp, nil
						}
					}
				}
				return res, err
			}
		})
	}
	var srvOpts []mcp.ServerOption
	var sseOpts []mcp.SSEOption
	if repeated {
		for _, m := range mws {
			srvOpts = append(srvOpts, mcp.WithMiddleware(m))
			sseOpts = append(sseOpts, mcp.WithSSEMiddleware(m))
		}
	} else if len(mws) > 0 {
		srvOpts = append(srvOpts, mcp.WithMiddleware(mws...))
		sseOpts = append(sseOpts, mcp.WithSSEMiddleware(mws...))
	}
	// the request's own context: the server-side context function copies the X-Req header of the
	// HTTP request into the context; every stage must see the value of its own request
	srvOpts = append(srvOpts, mcp.WithHTTPContextFunc(func(ctx context.Context, r *http.Request) context.Context {
		return context.WithValue(ctx, c15ReqKey{}, r.Header.Get("X-Req"))
	}))
	sseOpts = append(sseOpts, mcp.WithSSEContextFunc(func(ctx context.Context, r *http.Request) context.Context {
		return context.WithValue(ctx, c15ReqKey{}, r.Header.Get("X-Req"))
	}))
	w := newWorldOpts(c, mode, "srv", srvOpts, sseOpts)
	s.Net.Faults = sim.NetFaults{Delay: t.Pick(0, 10)}
	w.Reg.RegisterTool(mcp.NewTool("t", mcp.WithString("nonce")), func(ctx context.Context, req *mcp.CallToolRequest) (*mcp.CallToolResult, error) {
		nonce, _ := req.Params.Arguments["nonce"].(string)
		tag, _ := req.Params.Arguments["tag"].(string)
		add(nonce, "h")
		see(ctx, nonce, "h")
		s.Yield("handler")
		return &mcp.CallToolResult{Content: []mcp.Content{mcp.NewTextContent("h:" + nonce + ":" + tag)}}, nil
	})
	// one to three clients (sessions), each with its own concurrent requests
	nClients := 1 + t.Draw(3)
	type rec struct {
		nonce  string
		client int
		got    string
		err    error
	}
	var clients []*Client
	for k := 0; k < nClients; k++ {
		cl := w.newClient(mcp.WithHTTPBeforeRequest(func(ctx context.Context, req *http.Request) error {
			if v, ok := ctx.Value(c15ReqKey{}).(string); ok {
				req.Header.Set("X-Req", v)
			}
			return nil
		}))
		if err := initClient(c, cl); err != nil {
			s.Violate("C15|init-failed|"+mode, "Initialize of client %d failed: %v", k, err)
			return
		}
		clients = append(clients, cl)
	}
	cl := clients[0]
	var recs []*rec
	var tasks []*sim.Task
	for k, n := 0, nClients+t.Draw(3); k < n; k++ {
		r := &rec{nonce: c.Nonce("n"), client: k % nClients}
		recs = append(recs, r)
		tasks = append(tasks, s.Go(fmt.Sprintf("req%d", k), func() {
			ctx, cancel := context.WithTimeout(context.WithValue(context.Background(), c15ReqKey{}, r.nonce), 5*time.Minute)
			defer cancel()
			res, err := clients[r.client].API.CallTool(ctx, callToolReq("t", map[string]interface{}{"nonce": r.nonce}))
			r.err = err
			if err == nil {
				r.got = textOf(res)
			}
		}))
	}
	// a notification in between must bypass the chain
	tasks = append(tasks, s.Go("notifier", func() {
		ctx, cancel := context.WithTimeout(context.Background(), time.Minute)
		defer cancel()
		cl.HTTP.SendRootsListChangedNotification(ctx)
	}))
	for _, a := range s.WaitTasks(20*time.Minute, tasks...) {
		s.Violate("C15|stuck|"+mode, "%s did not finish", a.Name)
	}
	s.Settle(10 * time.Millisecond)
	chainStr := strings.Join(chain, ",")
	for _, r := range recs {
		wantTrace, wantRes, wantErr := c15Expect(chain, r.nonce)
		got := strings.Join(traces[r.nonce], " ")
		if got != strings.Join(wantTrace, " ") {
			s.Violate("C15|trace|"+mode, "chain [%s]: request %s passed through [%s], the statement requires [%s]", chainStr, r.nonce, got, strings.Join(wantTrace, " "))
		}
		if wantErr != "" {
			if r.err == nil {
				s.Violate("C15|error-swallowed|"+mode, "chain [%s]: middleware error %q but the client received result %q", chainStr, wantErr, r.got)
			} else if !strings.Contains(r.err.Error(), wantErr) || !strings.Contains(r.err.Error(), "-32603") {
				s.Violate("C15|error-mapping|"+mode, "chain [%s]: want JSON-RPC internal error carrying %q, client got: %v", chainStr, wantErr, r.err)
			}
		} else if r.err != nil {
			s.Violate("C15|unexpected-error|"+mode, "chain [%s]: request %s failed: %v", chainStr, r.nonce, r.err)
		} else if r.got != wantRes {
			s.Violate("C15|result|"+mode, "chain [%s]: client received %q, the statement requires %q", chainStr, r.got, wantRes)
		}
		if mode == "post-sse" || mode == "json" {
			sid := clients[r.client].HTTP.GetSessionID()
			for seen := range sessionSeen[r.nonce] {
				if seen != sid {
					s.Violate("C15|session|"+mode, "a stage of the chain saw session %q for a request of session %q (client %d of %d)", seen, sid, r.client, nClients)
				}
			}
		}
		if len(sessionSeen[r.nonce]) > 1 {
			s.Violate("C15|session-changes-within-request|"+mode, "the stages of request %s saw %d different sessions", r.nonce, len(sessionSeen[r.nonce]))
		}
		for stage, own := range ctxSeen[r.nonce] {
			if !own {
				s.Violate("C15|foreign-context|"+mode, "chain [%s]: stage %s of request %s ran with another request's context value", chainStr, stage, r.nonce)
			}
		}
	}
	// requests of different sessions never share a session; requests of one session share theirs
	if mode != "stateless-json" {
		owner := map[string]int{}
		for _, r := range recs {
			for sid := range sessionSeen[r.nonce] {
				if prev, ok := owner[sid]; ok && prev != r.client {
					s.Violate("C15|session-shared-between-clients|"+mode, "requests of clients %d and %d were both processed with session %q", prev, r.client, sid)
				}
				owner[sid] = r.client
			}
		}
		if nClients > 1 {
			s.Probe("c15.several_sessions")
		}
	}
	if len(notifSeen) > 0 {
		s.Violate("C15|notification-in-chain|"+mode, "middlewares were invoked for notifications: %v", notifSeen)
	}
	s.Probe(fmt.Sprintf("c15.len%d", len(chain)))
	for _, x := range clients {
		x.API.Close()
	}
}
