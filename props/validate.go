package props

import (
	"bytes"
	"encoding/json"
	"fmt"
	"strings"
)

// Independent validator for JSON-RPC 2.0 / MCP (2025-03-26) messages, written from the protocol
// schema over generic JSON values.  It does not use any of the library's types.

type frameInfo struct {
	Kind    string // response | error | notification | request | invalid
	ID      string // raw JSON text of the id ("" if absent)
	Method  string
	Obj     map[string]json.RawMessage
	Result  json.RawMessage
	ErrCode int
	ErrMsg  string
}

func rawKind(r json.RawMessage) string {
	s := bytes.TrimSpace(r)
	if len(s) == 0 {
		return "absent"
	}
	switch s[0] {
	case '{':
		return "object"
	case '[':
		return "array"
	case '"':
		return "string"
	case 't', 'f':
		return "bool"
	case 'n':
		return "null"
	}
	return "number"
}

// parseFrame classifies one frame and reports envelope-level problems.
func parseFrame(raw []byte) (frameInfo, []string) {
	var fi frameInfo
	var problems []string
	dec := json.NewDecoder(bytes.NewReader(raw))
	var obj map[string]json.RawMessage
	if err := dec.Decode(&obj); err != nil {
		fi.Kind = "invalid"
		return fi, []string{fmt.Sprintf("not a JSON object: %v", err)}
	}
	if dec.More() {
		problems = append(problems, "trailing data after the JSON object")
	}
	fi.Obj = obj
	var ver string
	if v, ok := obj["jsonrpc"]; !ok || json.Unmarshal(v, &ver) != nil || ver != "2.0" {
		problems = append(problems, fmt.Sprintf("jsonrpc member is %s, want \"2.0\"", string(obj["jsonrpc"])))
	}
	id, hasID := obj["id"]
	if hasID {
		fi.ID = string(bytes.TrimSpace(id))
	}
	_, hasResult := obj["result"]
	_, hasError := obj["error"]
	m, hasMethod := obj["method"]
	if hasMethod {
		if json.Unmarshal(m, &fi.Method) != nil {
			problems = append(problems, "method is not a string")
		}
	}
	switch {
	case hasMethod && hasID:
		fi.Kind = "request"
		if k := rawKind(id); k != "string" && k != "number" {
			problems = append(problems, "request id is "+k)
		}
		if hasResult || hasError {
			problems = append(problems, "request carries result/error")
		}
	case hasMethod:
		fi.Kind = "notification"
		if hasResult || hasError {
			problems = append(problems, "notification carries result/error")
		}
	case hasResult && hasError:
		fi.Kind = "invalid"
		problems = append(problems, "response has both result and error")
	case hasResult:
		fi.Kind = "response"
		fi.Result = obj["result"]
		if !hasID {
			problems = append(problems, "response without id")
		} else if k := rawKind(id); k != "string" && k != "number" {
			problems = append(problems, "response id is "+k)
		}
		if k := rawKind(obj["result"]); k != "object" {
			problems = append(problems, "result is "+k+", MCP results are objects")
		}
	case hasError:
		fi.Kind = "error"
		if !hasID {
			problems = append(problems, "error response without id member")
		} else if k := rawKind(id); k != "string" && k != "number" && k != "null" {
			problems = append(problems, "error response id is "+k)
		}
		var e map[string]json.RawMessage
		if json.Unmarshal(obj["error"], &e) != nil {
			problems = append(problems, "error member is not an object")
		} else {
			var code float64
			if c, ok := e["code"]; !ok || rawKind(c) != "number" || json.Unmarshal(c, &code) != nil || code != float64(int64(code)) {
				problems = append(problems, "error.code is not an integer")
			}
			fi.ErrCode = int(code)
			if mm, ok := e["message"]; !ok || json.Unmarshal(mm, &fi.ErrMsg) != nil {
				problems = append(problems, "error.message is not a string")
			}
		}
	default:
		fi.Kind = "invalid"
		problems = append(problems, "neither request, notification nor response (no method, result or error)")
	}
	for k := range obj {
		switch k {
		case "jsonrpc", "id", "method", "params", "result", "error":
		default:
			problems = append(problems, "unknown envelope member "+k)
		}
	}
	return fi, problems
}

func asObj(r json.RawMessage) (map[string]json.RawMessage, bool) {
	var m map[string]json.RawMessage
	if rawKind(r) != "object" || json.Unmarshal(r, &m) != nil {
		return nil, false
	}
	return m, true
}

func asArr(r json.RawMessage) ([]json.RawMessage, bool) {
	var a []json.RawMessage
	if rawKind(r) != "array" || json.Unmarshal(r, &a) != nil {
		return nil, false
	}
	return a, true
}

func isStr(r json.RawMessage) bool { return rawKind(r) == "string" }

func checkContent(r json.RawMessage, where string) []string {
	m, ok := asObj(r)
	if !ok {
		return []string{where + " is not an object"}
	}
	var typ string
	if json.Unmarshal(m["type"], &typ) != nil {
		return []string{where + ".type is not a string"}
	}
	var p []string
	switch typ {
	case "text":
		if !isStr(m["text"]) {
			p = append(p, where+".text is not a string")
		}
	case "image", "audio":
		if !isStr(m["data"]) {
			p = append(p, where+".data is not a string")
		}
		if !isStr(m["mimeType"]) {
			p = append(p, where+".mimeType is not a string")
		}
	case "resource":
		p = append(p, checkResourceContents(m["resource"], where+".resource")...)
	default:
		p = append(p, fmt.Sprintf("%s.type %q is not an MCP content type (text, image, audio, resource)", where, typ))
	}
	return p
}

func checkResourceContents(r json.RawMessage, where string) []string {
	m, ok := asObj(r)
	if !ok {
		return []string{where + " is not an object"}
	}
	var p []string
	if !isStr(m["uri"]) {
		p = append(p, where+".uri is not a string")
	}
	_, t := m["text"]
	_, b := m["blob"]
	if t == b {
		p = append(p, where+" must have exactly one of text / blob")
	}
	if t && !isStr(m["text"]) {
		p = append(p, where+".text is not a string")
	}
	if b && !isStr(m["blob"]) {
		p = append(p, where+".blob is not a string")
	}
	return p
}

// checkResult validates the shape of a result for the method of the request it answers.
func checkResult(method string, result json.RawMessage) []string {
	m, ok := asObj(result)
	if !ok {
		return []string{"result is not an object"}
	}
	var p []string
	arr := func(key string) []json.RawMessage {
		a, ok := asArr(m[key])
		if !ok {
			p = append(p, fmt.Sprintf("result.%s is %s, want array", key, rawKind(m[key])))
		}
		return a
	}
	switch method {
	case "initialize":
		if !isStr(m["protocolVersion"]) {
			p = append(p, "result.protocolVersion is not a string")
		}
		if _, ok := asObj(m["capabilities"]); !ok {
			p = append(p, "result.capabilities is not an object")
		}
		si, ok := asObj(m["serverInfo"])
		if !ok || !isStr(si["name"]) || !isStr(si["version"]) {
			p = append(p, "result.serverInfo must have string name and version")
		}
	case "ping":
	case "tools/list":
		for i, t := range arr("tools") {
			tm, ok := asObj(t)
			if !ok || !isStr(tm["name"]) {
				p = append(p, fmt.Sprintf("tools[%d].name is not a string", i))
				continue
			}
			if is, ok := asObj(tm["inputSchema"]); !ok {
				p = append(p, fmt.Sprintf("tools[%d].inputSchema is not an object", i))
			} else {
				var ty string
				if json.Unmarshal(is["type"], &ty) != nil || ty != "object" {
					p = append(p, fmt.Sprintf("tools[%d].inputSchema.type is not \"object\"", i))
				}
			}
		}
	case "tools/call":
		for i, it := range arr("content") {
			p = append(p, checkContent(it, fmt.Sprintf("content[%d]", i))...)
		}
		if v, ok := m["isError"]; ok && rawKind(v) != "bool" {
			p = append(p, "result.isError is not a boolean")
		}
	case "prompts/list":
		for i, t := range arr("prompts") {
			tm, ok := asObj(t)
			if !ok || !isStr(tm["name"]) {
				p = append(p, fmt.Sprintf("prompts[%d].name is not a string", i))
			}
		}
	case "prompts/get":
		for i, t := range arr("messages") {
			tm, ok := asObj(t)
			if !ok {
				p = append(p, fmt.Sprintf("messages[%d] is not an object", i))
				continue
			}
			var role string
			if json.Unmarshal(tm["role"], &role) != nil || (role != "user" && role != "assistant") {
				p = append(p, fmt.Sprintf("messages[%d].role is %s", i, string(tm["role"])))
			}
			p = append(p, checkContent(tm["content"], fmt.Sprintf("messages[%d].content", i))...)
		}
	case "resources/list":
		for i, t := range arr("resources") {
			tm, ok := asObj(t)
			if !ok || !isStr(tm["name"]) || !isStr(tm["uri"]) {
				p = append(p, fmt.Sprintf("resources[%d] must have string name and uri", i))
			}
		}
	case "resources/read":
		for i, t := range arr("contents") {
			p = append(p, checkResourceContents(t, fmt.Sprintf("contents[%d]", i))...)
		}
	case "resources/templates/list":
		arr("resourceTemplates")
	}
	return p
}

// strictLines splits a stdio byte stream at '\n' and reports lines that are not one JSON value.
func strictLines(b []byte) (lines [][]byte, problems []string) {
	for len(b) > 0 {
		i := bytes.IndexByte(b, '\n')
		if i < 0 {
			problems = append(problems, fmt.Sprintf("stream ends with an unterminated line: %q", short(string(b))))
			break
		}
		line := b[:i]
		b = b[i+1:]
		if len(bytes.TrimSpace(line)) == 0 {
			problems = append(problems, "empty line in the stream")
			continue
		}
		lines = append(lines, line)
	}
	return
}

func joinProblems(p []string) string {
	if len(p) > 4 {
		p = append(p[:4:4], fmt.Sprintf("… (%d more)", len(p)-4))
	}
	return strings.Join(p, "; ")
}
