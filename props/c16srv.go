package props

import (
	"encoding/json"
	"fmt"
	"io"
	"net/http"
)

type scriptedErr struct {
	mode   string
	stream http.ResponseWriter
}

func (h *scriptedErr) ServeHTTP(w http.ResponseWriter, r *http.Request) {
	if r.Method == "GET" {
		if h.mode == "legacy-sse" {
			w.Header().Set("Content-Type", "text/event-stream")
			w.WriteHeader(200)
			io.WriteString(w, "event: endpoint\ndata: /mcp/message?sessionId=s\n\n")
			w.(http.Flusher).Flush()
			h.stream = w
			<-r.Context().Done()
			return
		}
		w.WriteHeader(405)
		return
	}
	body, _ := io.ReadAll(r.Body)
	var m map[string]interface{}
	json.Unmarshal(body, &m)
	id, hasID := m["id"]
	if !hasID {
		w.WriteHeader(202)
		return
	}
	ans, _ := json.Marshal(map[string]interface{}{"jsonrpc": "2.0", "id": id, "error": map[string]interface{}{"code": -32602, "message": "scripted refusal"}})
	if h.mode == "legacy-sse" {
		w.WriteHeader(202)
		if h.stream != nil {
			fmt.Fprintf(h.stream, "event: message\ndata: %s\n\n", ans)
			h.stream.(http.Flusher).Flush()
		}
		return
	}
	w.Header().Set("Content-Type", "application/json")
	w.WriteHeader(200)
	w.Write(ans)
}
