package props

import (
	"bufio"
	"fmt"
	"os"
	"regexp"
	"sort"
	"strings"

	"verif/sim"
)

// Race-mode support: the Go race detector writes its reports to GORACE's log_path; after every run
// the worker reads what was appended and turns each report about the code under test into a
// verdict.  Reports whose accesses are in harness code are counted, not reported.

type raceLog struct {
	path string
	off  int64
}

var raceFrameFile = regexp.MustCompile(`^\s+(/\S+\.go):(\d+)`)

type raceAccess struct {
	kind  string // read | write
	fn    string // first frame that is neither runtime nor standard library
	file  string
	line  int
	isLib bool
}

func (r *raceLog) read() string {
	f, err := os.Open(r.path)
	if err != nil {
		return ""
	}
	defer f.Close()
	st, _ := f.Stat()
	if st.Size() <= r.off {
		return ""
	}
	buf := make([]byte, st.Size()-r.off)
	f.ReadAt(buf, r.off)
	r.off = st.Size()
	return string(buf)
}

func srcLine(file string, line int) string {
	f, err := os.Open(file)
	if err != nil {
		return ""
	}
	defer f.Close()
	sc := bufio.NewScanner(f)
	sc.Buffer(make([]byte, 1<<20), 1<<24)
	for i := 1; sc.Scan(); i++ {
		if i == line {
			t := strings.TrimSpace(sc.Text())
			// undo the instrumentation's wrappers so that the text is the original statement
			t = regexp.MustCompile(`zzsimhook\.Yv\("[^"]*", `).ReplaceAllString(t, "")
			t = regexp.MustCompile(`zzsimhook\.Yield\("[^"]*"\); ?`).ReplaceAllString(t, "")
			if len(t) > 70 {
				t = t[:70]
			}
			return t
		}
	}
	return ""
}

// parseRaces splits detector output into reports and extracts the two conflicting accesses.
func parseRaces(text string) (lib []sim.Violation, harness int) {
	blocks := strings.Split(text, "==================")
	for _, b := range blocks {
		if !strings.Contains(b, "WARNING: DATA RACE") {
			continue
		}
		var accs []raceAccess
		lines := strings.Split(b, "\n")
		for i := 0; i < len(lines); i++ {
			l := lines[i]
			low := strings.ToLower(l)
			isAcc := (strings.HasPrefix(low, "write at") || strings.HasPrefix(low, "read at") || strings.HasPrefix(low, "previous write at") || strings.HasPrefix(low, "previous read at") ||
				strings.HasPrefix(low, "atomic ") || strings.HasPrefix(low, "previous atomic "))
			if !isAcc {
				continue
			}
			a := raceAccess{kind: "read"}
			if strings.Contains(low, "write") {
				a.kind = "write"
			}
			// frames: function line, then "      /path/file.go:NN +0x.."
			for j := i + 1; j+1 < len(lines) && strings.TrimSpace(lines[j]) != ""; j += 2 {
				fn := strings.TrimSpace(lines[j])
				m := raceFrameFile.FindStringSubmatch(lines[j+1])
				if m == nil {
					break
				}
				file := m[1]
				if strings.Contains(file, "/go1.26.8/src/") || strings.Contains(file, "/pkg/mod/") && !strings.Contains(file, "trpc-mcp-go") {
					continue // runtime / standard library / third party: look further down
				}
				a.file = file
				fmt.Sscanf(m[2], "%d", &a.line)
				if k := strings.LastIndex(fn, "("); k > 0 {
					fn = fn[:k]
				}
				a.fn = strings.TrimPrefix(fn, "trpc.group/trpc-go/trpc-mcp-go")
				a.isLib = strings.Contains(file, "/repo/") && !strings.Contains(file, "zzsimhook") && !strings.Contains(file, "zz_verif_hooks")
				break
			}
			accs = append(accs, a)
		}
		if len(accs) < 2 {
			continue
		}
		if !accs[0].isLib || !accs[1].isLib {
			harness++
			continue
		}
		parts := []string{
			fmt.Sprintf("%s %s `%s`", accs[0].kind, accs[0].fn, srcLine(accs[0].file, accs[0].line)),
			fmt.Sprintf("%s %s `%s`", accs[1].kind, accs[1].fn, srcLine(accs[1].file, accs[1].line)),
		}
		sort.Strings(parts)
		msg := strings.TrimSpace(b)
		if len(msg) > 6000 {
			msg = msg[:6000] + "\n…"
		}
		lib = append(lib, sim.Violation{Sig: "C20|race|" + parts[0] + "|" + parts[1], Msg: "the race detector reports unsynchronised conflicting accesses:\n" + msg})
	}
	return
}
