package props

import (
	"context"
	"fmt"
	"net/http"
	"strings"
	"sync"
	"time"

	mcp "trpc.group/trpc-go/trpc-mcp-go"
	"verif/sim"
)

// C19 — client-side customisation applies to every outbound HTTP request.

func init() {
	register(&Scenario{Prop: "C19", Run: runC19, Opts: sim.Options{MaxSteps: 80000, MaxSimTime: 30 * time.Minute}})
}

type c19Key struct{}

type recordingHandler struct {
	mu    sync.Mutex
	calls int
}

func (h *recordingHandler) Handle(ctx context.Context, client *http.Client, req *http.Request) (*http.Response, error) {
	h.mu.Lock()
	h.calls++
	h.mu.Unlock()
	req.Header.Set("X-Handler", "1")
	return client.Do(req.WithContext(ctx))
}

func runC19(c *Ctx) {
	s, t := c.S, c.T
	cfg := int(c.Run) % 16 // enumerated: bit0 static headers, bit1 before-request, bit2 handler, bit3 custom path
	kind := []string{"streamable", "legacy-sse"}[(int(c.Run)/16)%2]
	useHeaders, useBefore, useHandler, usePath := cfg&1 != 0, cfg&2 != 0, cfg&4 != 0, cfg&8 != 0
	failAt := ""
	if useBefore && t.Bool(30) {
		failAt = []string{"init", "call", "notify", "terminate"}[t.Draw(4)]
	}
	c.SetPlan("client", kind)
	c.SetPlan("config", map[string]bool{"static_headers": useHeaders, "before_request": useBefore, "request_handler": useHandler, "custom_path": usePath})
	c.SetPlan("before_request_fails_at", failAt)
	path := "/mcp"
	if usePath {
		path = "/custom/api"
	}
	var w *World
	if kind == "streamable" {
		mode := []string{"post-sse", "json"}[t.Draw(2)]
		c.SetPlan("mode", mode)
		w = newWorld(c, mode, "srv", mcp.WithServerPath(path))
	} else {
		base := "/mcp"
		if usePath {
			base = "/custom"
		}
		w = newWorldOpts(c, "legacy-sse", "srv", nil, []mcp.SSEOption{mcp.WithBasePath(base)})
		path = base + "/sse"
	}
	registerC09Tools(c, w.Reg, w.Count)
	var opts []mcp.ClientOption
	opts = append(opts, mcp.WithClientLogger(nopLogger{}))
	if useHeaders {
		// the static headers arrive through one option or through several
		switch t.Draw(3) {
		case 0:
			opts = append(opts, mcp.WithHTTPHeaders(http.Header{"X-Static": {"v1"}, "X-Static-Two": {"a", "b"}}))
			c.SetPlan("header_options", 1)
		case 1:
			opts = append(opts, mcp.WithHTTPHeaders(http.Header{"X-Static": {"v1"}}), mcp.WithHTTPHeaders(http.Header{"X-Static-Two": {"a", "b"}}))
			c.SetPlan("header_options", 2)
		default:
			opts = append(opts, mcp.WithHTTPHeaders(http.Header{"X-Static-Two": {"a", "b"}}), mcp.WithHTTPHeaders(http.Header{}), mcp.WithHTTPHeaders(http.Header{"X-Static": {"v1"}}))
			c.SetPlan("header_options", 3)
		}
	}
	type beforeRec struct {
		op, method, path string
	}
	var befores []beforeRec
	var mu sync.Mutex
	if useBefore {
		opts = append(opts, mcp.WithHTTPBeforeRequest(func(ctx context.Context, req *http.Request) error {
			op, _ := ctx.Value(c19Key{}).(string)
			mu.Lock()
			befores = append(befores, beforeRec{op, req.Method, req.URL.Path})
			mu.Unlock()
			if failAt != "" && op == failAt {
				return fmt.Errorf("before-request refused %s", op)
			}
			req.Header.Add("X-Before", op)
			return nil
		}))
	}
	rh := &recordingHandler{}
	if useHandler {
		opts = append(opts, mcp.WithHTTPReqHandler(rh))
	}
	if usePath && kind == "streamable" {
		opts = append(opts, mcp.WithClientPath(path))
	}
	var cl *mcp.Client
	var err error
	if kind == "streamable" {
		cl, err = mcp.NewClient("http://srv/mcp", clientInfo, opts...)
	} else {
		if usePath {
			opts = append(opts, mcp.WithClientPath(path))
		}
		cl, err = mcp.NewSSEClient("http://srv/mcp/sse", clientInfo, opts...)
	}
	if err != nil {
		panic(err)
	}
	cl.SetRootsProvider(slowRoots{s: s, roots: []mcp.Root{{URI: "file:///r", Name: "r"}}})
	opCtx := func(op string) (context.Context, context.CancelFunc) {
		return context.WithTimeout(context.WithValue(context.Background(), c19Key{}, op), 3*time.Minute)
	}
	connsBefore := func() int { return len(s.Net.Conns()) }
	expectBlocked := func(op string, n0 int, err error) bool {
		if failAt != op {
			return false
		}
		if err == nil || !strings.Contains(err.Error(), "before-request refused "+op) {
			s.Violate(fmt.Sprintf("C19|before-error-not-returned|%s|%s", kind, op), "the before-request function failed for %s, the operation returned %v", op, err)
		}
		if n := connsBefore(); n != n0 {
			s.Violate(fmt.Sprintf("C19|sent-despite-before-error|%s|%s", kind, op), "the before-request function failed for %s, yet %d request(s) reached the network", op, n-n0)
		}
		return true
	}
	// ---- history that makes the client emit every request kind ----
	// in some runs a gateway in front of the server answers the first initialize with a bare 503
	// (no session header); the application then initializes again
	flaky := kind == "streamable" && failAt != "init" && t.Bool(25)
	c.SetPlan("first_initialize_gets_503", flaky)
	if flaky {
		armed := true
		s.Net.Script = func(conn *sim.Conn) *sim.Outcome {
			if armed && conn.Method == "POST" && strings.Contains(string(conn.ReqBody), `"method":"initialize"`) {
				armed = false
				s.Fault("c19.initialize-503")
				return &sim.Outcome{Kind: "status", Status: 503, Body: "upstream unavailable"}
			}
			return nil
		}
		fctx, fcancel := opCtx("init")
		if _, err := cl.Initialize(fctx, &mcp.InitializeRequest{}); err == nil {
			s.Violate("C19|refused-initialize-reported-as-success|"+kind, "the initialize POST was answered 503, Initialize returned nil")
		}
		fcancel()
		s.Net.Script = nil
	}
	ctx, cancel := opCtx("init")
	n0 := connsBefore()
	_, ierr := cl.Initialize(ctx, &mcp.InitializeRequest{})
	cancel()
	if expectBlocked("init", n0, ierr) {
		s.Probe("c19.blocked.init")
		return
	}
	if ierr != nil {
		s.Violate("C19|init-failed|"+kind, "Initialize failed: %v", ierr)
		return
	}
	s.Settle(20 * time.Millisecond) // GET stream
	// the operations after the handshake come in a drawn order and number; a streamable history may
	// contain session terminations that the peer or the network refuses, after which the session is
	// still the client's session
	doCall := func() {
		ctx, cancel := opCtx("call")
		n0 := connsBefore()
		_, cerr := cl.CallTool(ctx, callToolReq("roots", map[string]interface{}{"nonce": "n"})) // makes the server issue roots/list -> client answers
		cancel()
		if !expectBlocked("call", n0, cerr) && cerr != nil {
			s.Violate("C19|call-failed|"+kind, "CallTool failed: %v", cerr)
		}
	}
	doNotify := func() {
		ctx, cancel := opCtx("notify")
		n0 := connsBefore()
		nerr := cl.SendRootsListChangedNotification(ctx)
		cancel()
		if !expectBlocked("notify", n0, nerr) && nerr != nil {
			s.Violate("C19|notify-failed|"+kind, "SendRootsListChangedNotification failed: %v", nerr)
		}
	}
	deleteFault := ""
	s.Net.Script = func(conn *sim.Conn) *sim.Outcome {
		if conn.Method != "DELETE" || deleteFault == "" {
			return nil
		}
		f := deleteFault
		deleteFault = ""
		s.Fault("c19.delete-" + f)
		switch f {
		case "reset":
			return &sim.Outcome{Kind: "reset"}
		case "503":
			return &sim.Outcome{Kind: "status", Status: 503, Body: "upstream unavailable"}
		case "405":
			return &sim.Outcome{Kind: "status", Status: 405, Body: "termination not supported"}
		}
		return &sim.Outcome{Kind: "status", Status: 500, Body: "oops"}
	}
	doFailedTerminate := func() {
		deleteFault = []string{"reset", "503", "405", "500"}[t.Draw(4)]
		ctx, cancel := opCtx("terminate")
		n0 := connsBefore()
		terr := cl.TerminateSession(ctx)
		cancel()
		if expectBlocked("terminate", n0, terr) {
			deleteFault = ""
			return
		}
		if terr == nil {
			s.Violate("C19|refused-terminate-reported-as-success|"+kind, "the DELETE was refused, TerminateSession returned nil")
		}
		s.Probe("c19.refused_terminate")
	}
	var history []string
	for n := 2 + t.Draw(4); n > 0; n-- {
		op := []string{"call", "notify", "call", "notify", "failed-terminate"}[t.Draw(5)]
		if op == "failed-terminate" && kind != "streamable" {
			op = "call"
		}
		history = append(history, op)
	}
	if !strings.Contains(strings.Join(history, " "), "call") {
		history = append(history, "call")
	}
	if !strings.Contains(strings.Join(history, " "), "notify") {
		history = append(history, "notify")
	}
	c.SetPlan("history", history)
	for _, op := range history {
		switch op {
		case "call":
			doCall()
		case "notify":
			doNotify()
		case "failed-terminate":
			doFailedTerminate()
		}
	}
	if kind == "streamable" {
		ctx, cancel := opCtx("terminate")
		n0 := connsBefore()
		terr := cl.TerminateSession(ctx)
		cancel()
		if !expectBlocked("terminate", n0, terr) && terr != nil {
			s.Violate("C19|terminate-failed|"+kind, "TerminateSession failed: %v", terr)
		}
	}
	s.Settle(10 * time.Millisecond)
	if kind == "legacy-sse" && failAt == "" && t.Bool(30) {
		// the application closes the client while a call (and the answer to the server's roots/list it
		// triggers) is in flight: whatever still goes out is judged like everything else
		wait := t.Draw(40)
		c.SetPlan("close_during_call_after_steps", wait)
		call := s.Go("last-call", func() {
			ctx, cancel := opCtx("call")
			defer cancel()
			cl.CallTool(ctx, callToolReq("roots", map[string]interface{}{"nonce": "last"}))
		})
		closer := s.Go("closer", func() {
			for i := 0; i < wait; i++ {
				s.Yield("closer#wait")
			}
			cl.Close()
		})
		s.WaitTasks(5*time.Minute, call, closer)
		s.Probe("c19.close_during_call")
	}
	cl.Close()
	s.Settle(10 * time.Millisecond)

	// ---- oracle over the network record ----
	classify := func(conn *sim.Conn) string {
		b := string(conn.ReqBody)
		switch {
		case conn.Method == "GET":
			return "stream-GET"
		case conn.Method == "DELETE":
			return "session-DELETE"
		case strings.Contains(b, `"method":"initialize"`):
			return "initialize"
		case strings.Contains(b, "notifications/initialized"):
			return "initialized-notification"
		case strings.Contains(b, "roots/list_changed"):
			return "notification"
		case strings.Contains(b, `"method":"tools/call"`):
			return "request"
		case strings.Contains(b, `"result"`) && strings.Contains(b, "roots"):
			return "answer-to-server-request"
		}
		return "other"
	}
	wantOp := map[string]string{"initialize": "init", "initialized-notification": "init", "stream-GET": "init", "request": "call",
		"answer-to-server-request": "init", "notification": "notify", "session-DELETE": "terminate"}
	sid := ""
	kinds := map[string]int{}
	for _, conn := range s.Net.Conns() {
		k := classify(conn)
		kinds[k]++
		sig := func(what string) string { return fmt.Sprintf("C19|%s|%s|%s", what, kind, k) }
		desc := fmt.Sprintf("c%d %s %s (%s)", conn.ID, conn.Method, conn.Path, k)
		if kind == "streamable" && conn.Path != path {
			s.Violate(sig("wrong-path"), "%s went to %s, the configured path is %s", desc, conn.Path, path)
		}
		if kind == "legacy-sse" && !strings.HasPrefix(conn.Path, strings.TrimSuffix(path, "/sse")) {
			s.Violate(sig("wrong-path"), "%s went to %s, the configured base is %s", desc, conn.Path, strings.TrimSuffix(path, "/sse"))
		}
		if useHeaders && (conn.ReqHeader.Get("X-Static") != "v1" || len(conn.ReqHeader.Values("X-Static-Two")) != 2) {
			s.Violate(sig("static-header-missing"), "%s lacks the configured static headers (has %v)", desc, conn.ReqHeader)
		}
		if useHandler && conn.ReqHeader.Get("X-Handler") != "1" {
			s.Violate(sig("handler-bypassed"), "%s did not go through the configured request handler", desc)
		}
		if useBefore {
			got := conn.ReqHeader.Values("X-Before")
			switch {
			case len(got) == 0:
				s.Violate(sig("before-request-bypassed"), "%s did not pass through the before-request function", desc)
			case len(got) > 1:
				s.Violate(sig("before-request-twice"), "%s passed through the before-request function %d times", desc, len(got))
			case got[0] != wantOp[k] && wantOp[k] != "":
				s.Violate(sig("before-request-context"), "%s: the before-request function saw context value %q, the calling operation carries %q", desc, got[0], wantOp[k])
			}
		}
		if kind == "streamable" {
			if sid != "" && conn.ReqHeader.Get("Mcp-Session-Id") != sid {
				s.Violate(sig("session-id-missing"), "%s carries session id %q, the issued one is %q", desc, conn.ReqHeader.Get("Mcp-Session-Id"), sid)
			}
			if sid == "" && conn.RespHeader != nil {
				sid = conn.RespHeader.Get("Mcp-Session-Id")
			}
		}
	}
	for _, k := range []string{"initialize", "initialized-notification", "request", "notification"} {
		if kinds[k] == 0 && failAt == "" {
			s.Violate("C19|history-incomplete|"+kind+"|"+k, "the history did not produce a %s request (kinds seen: %v)", k, kinds)
		}
	}
	for k, n := range kinds {
		s.Probe(fmt.Sprintf("c19.kind.%s.%s", kind, k))
		_ = n
	}
}

// slowRoots is a roots provider that takes a few scheduler steps (the answer to a server-issued
// roots/list is built while other things happen).
type slowRoots struct {
	s     *sim.Sim
	roots []mcp.Root
}

func (f slowRoots) GetRoots() []mcp.Root {
	for i := 0; i < 3; i++ {
		f.s.Yield("roots-provider")
	}
	return f.roots
}
