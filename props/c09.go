package props

import (
	"bufio"
	"context"
	"encoding/json"
	"fmt"
	"os/exec"
	"strings"
	"time"

	mcp "trpc.group/trpc-go/trpc-mcp-go"
	"verif/sim"
)

// C09 — one message per frame: SSE events and stdio lines never interleave.

func init() {
	register(&Scenario{Prop: "C09", Run: runC09, Opts: sim.Options{MaxSteps: 120000, MaxSimTime: 30 * time.Minute}})
}

var c09Sizes = []int{8, 1500, 4000, 4096, 4200, 9000, 66000}

// payload builds a string of about n bytes containing characters that need care in framing.
func payload(nonce string, n int) string {
	var sb strings.Builder
	sb.WriteString(nonce)
	sb.WriteString("|line1\nline2\r\nline3 ls ps|")
	for sb.Len() < n {
		sb.WriteString("abcdefghijklmnopqrstuvwxyz0123456789\n")
	}
	return sb.String()
}

type fixedRoots struct{ roots []mcp.Root }

func (f fixedRoots) GetRoots() []mcp.Root { return f.roots }

// registerC09Tools registers "big" (answer of requested size) and "roots" (asks the client for its roots).
func registerC09Tools(c *Ctx, r registrar, count *Counter) {
	r.RegisterTool(mcp.NewTool("big", mcp.WithString("nonce"), mcp.WithNumber("size"), mcp.WithNumber("delay_ms")),
		func(ctx context.Context, req *mcp.CallToolRequest) (*mcp.CallToolResult, error) {
			n, _ := req.Params.Arguments["nonce"].(string)
			size, _ := req.Params.Arguments["size"].(float64)
			count.Inc("big:" + n)
			handlerDelay(c, req.Params.Arguments)
			return &mcp.CallToolResult{Content: []mcp.Content{mcp.NewTextContent(payload("r:"+n, int(size)))}}, nil
		})
	r.RegisterTool(mcp.NewTool("roots", mcp.WithString("nonce")),
		func(ctx context.Context, req *mcp.CallToolRequest) (*mcp.CallToolResult, error) {
			n, _ := req.Params.Arguments["nonce"].(string)
			count.Inc("roots:" + n)
			var res *mcp.ListRootsResult
			var err error
			rctx, cancel := context.WithTimeout(ctx, 40*time.Second)
			defer cancel()
			switch s := mcp.GetServerFromContext(ctx).(type) {
			case *mcp.Server:
				res, err = s.ListRoots(rctx)
			case *mcp.SSEServer:
				res, err = s.ListRoots(rctx)
			case *mcp.StdioServer:
				res, err = s.ListRoots(rctx)
			default:
				err = fmt.Errorf("no server in context (%T)", s)
			}
			if err != nil {
				return &mcp.CallToolResult{Content: []mcp.Content{mcp.NewTextContent("r:" + n + "|rootserr:" + err.Error())}}, nil
			}
			return &mcp.CallToolResult{Content: []mcp.Content{mcp.NewTextContent(fmt.Sprintf("r:%s|roots:%d", n, len(res.Roots)))}}, nil
		})
}

func runC09(c *Ctx) {
	s, t := c.S, c.T
	variant := []string{"stdio", "legacy-sse", "get-stream", "stdio-client-stdin", "get-resume"}[t.Draw(5)]
	c.SetPlan("variant", variant)
	s.Probe("c09.variant." + variant)
	switch variant {
	case "stdio", "legacy-sse", "get-stream":
		c09Lib(c, variant)
	case "stdio-client-stdin":
		c09ClientStdin(c)
	case "get-resume":
		c09GetResume(c)
	}
}

// c09GetResume: a raw peer keeps reconnecting the listening stream of its session with a
// Last-Event-ID header (stream resumption: the server writes a notice of its own on the new
// stream) while server-side senders write notifications and requests to the same session.
func c09GetResume(c *Ctx) {
	s, t := c.S, c.T
	const variant = "get-resume"
	w := newWorld(c, "post-sse", "srv")
	s.Net.Faults = sim.NetFaults{ShortRead: t.Pick(0, 20)}
	sid, err := rawSession(c, "srv")
	if err != nil {
		s.Violate("C09|init-failed|"+variant, "raw handshake failed: %v", err)
		return
	}
	open := func(k int, last string) *RawStream {
		hdr := withSession(map[string]string{"Accept": "text/event-stream"}, sid)
		if last != "" {
			hdr["Last-Event-ID"] = last
		}
		rs, err := rawOpenStream(c, fmt.Sprintf("peer/get%d", k), "GET", "http://srv/mcp", hdr, nil)
		if err != nil || rs.Status != 200 {
			return nil
		}
		return rs
	}
	cur := open(0, "")
	if cur == nil {
		s.Violate("C09|init-failed|"+variant, "GET stream refused")
		return
	}
	var tasks []*sim.Task
	var sent []string
	nSenders := 1 + t.Draw(3)
	for k := 0; k < nSenders; k++ {
		n := 2 + t.Draw(6)
		tasks = append(tasks, s.Go(fmt.Sprintf("sender%d", k), func() {
			for i := 0; i < n; i++ {
				nonce := c.Nonce("s")
				size := c09Sizes[c.T.Draw(len(c09Sizes))]
				if err := w.Srv.SendNotification(sid, "notifications/verif", map[string]interface{}{"nonce": nonce, "pad": payload("p", size)}); err == nil {
					c.mu.Lock()
					sent = append(sent, nonce)
					c.mu.Unlock()
				}
				s.Yield("sender#next")
			}
		}))
	}
	nReopen := 1 + t.Draw(4)
	tasks = append(tasks, s.Go("reconnector", func() {
		for k := 1; k <= nReopen; k++ {
			for i := c.T.Draw(12); i > 0; i-- {
				s.Yield("reconnector#wait")
			}
			next := open(k, fmt.Sprintf("evt-%d", k))
			if next == nil {
				continue
			}
			s.Probe("c09.resumed")
			if c.T.Bool(50) {
				cur.Close()
			}
			cur = next
		}
	}))
	for _, a := range s.WaitTasks(20*time.Minute, tasks...) {
		s.Violate("C09|stuck|"+variant, "task %s did not finish", a.Name)
	}
	s.Settle(50 * time.Millisecond)
	frames, problems := httpFrames(c)
	if len(problems) > 0 {
		s.Violate("C09|frame-corrupt|"+variant, "%d framing problems on the wire, e.g. %s", len(problems), joinProblems(problems))
	}
	for _, e := range s.LibEvents() {
		if strings.Contains(e, "http.ResponseWriter used after the handler returned") {
			s.Violate("C09|write-after-handler-return|"+variant, "%s", e)
		}
		if strings.Contains(e, "concurrent use of http.ResponseWriter") {
			s.Violate("C09|concurrent-writer-use|"+variant, "two writers were inside Write/Flush of one stream at once (frames tear in a real net/http server): %s", e)
		}
	}
	for _, nonce := range sent {
		n := 0
		for _, f := range frames {
			if strings.Contains(string(f.Raw), "\"nonce\":\""+nonce+"\"") {
				n++
			}
		}
		if n != 1 {
			s.Violate("C09|frame-count|"+variant, "notification %s was sent successfully once but appears in %d frames on the wire", nonce, n)
		}
	}
	cur.Close()
}

func c09Lib(c *Ctx, variant string) {
	s, t := c.S, c.T
	mode := map[string]string{"stdio": "stdio", "legacy-sse": "legacy-sse", "get-stream": "post-sse"}[variant]
	w := newWorld(c, mode, "srv")
	w.register(func(r registrar) { registerC09Tools(c, r, w.Count) })
	s.Net.Faults = sim.NetFaults{ShortRead: t.Pick(0, 20)}
	cl := w.newClient()
	roots := fixedRoots{[]mcp.Root{{URI: "file:///a", Name: "a"}, {URI: "file:///b", Name: "b"}}}
	if cl.HTTP != nil {
		cl.HTTP.SetRootsProvider(roots)
	} else {
		cl.Stdio.SetRootsProvider(roots)
		cl.Link.FromSrv.ShortRead = t.Pick(0, 20)
	}
	notifSeen := newCounter()
	if cl.HTTP != nil {
		cl.HTTP.RegisterNotificationHandler("notifications/verif", func(n *mcp.JSONRPCNotification) error {
			v, _ := n.Params.AdditionalFields["nonce"].(string)
			notifSeen.Inc(v)
			return nil
		})
	}
	if err := initClient(c, cl); err != nil {
		s.Violate("C09|init-failed|"+variant, "Initialize failed in a fault-free run: %v", err)
		return
	}
	s.Settle(10 * time.Millisecond) // let the GET stream come up
	nCallers := 2 + t.Draw(5)
	type rec struct {
		nonce, tool string
		err         error
		got         string
	}
	var recs []*rec
	var tasks []*sim.Task
	var planned [][]string
	for k := 0; k < nCallers; k++ {
		nOps := 1 + t.Draw(3)
		var desc []string
		type op struct {
			tool  string
			size  int
			delay int
		}
		var ops []op
		for i := 0; i < nOps; i++ {
			o := op{tool: "big", size: c09Sizes[t.Draw(len(c09Sizes))]}
			if t.Bool(30) {
				o.tool = "roots"
			}
			if variant == "legacy-sse" {
				o.delay = t.Pick(0, 0, 29900, 30100)
			} else {
				o.delay = t.Pick(0, 0, 1)
			}
			ops = append(ops, o)
			desc = append(desc, fmt.Sprintf("%s size=%d delay=%dms", o.tool, o.size, o.delay))
		}
		planned = append(planned, desc)
		tasks = append(tasks, s.Go(fmt.Sprintf("caller%d", k), func() {
			for _, o := range ops {
				r := &rec{nonce: c.Nonce("n"), tool: o.tool}
				c.mu.Lock()
				recs = append(recs, r)
				c.mu.Unlock()
				ctx, cancel := context.WithTimeout(context.Background(), 5*time.Minute)
				res, err := cl.API.CallTool(ctx, callToolReq(o.tool, map[string]interface{}{"nonce": r.nonce, "size": float64(o.size), "delay_ms": float64(o.delay)}))
				cancel()
				r.err = err
				if err == nil {
					r.got = textOf(res)
				}
			}
		}))
	}
	// concurrent server-side senders on the legacy stream (a third writer next to the event queue and keep-alive)
	var sent []string
	if variant == "legacy-sse" {
		w.Reg.RegisterTool(mcp.NewTool("whoami"), func(ctx context.Context, req *mcp.CallToolRequest) (*mcp.CallToolResult, error) {
			se, _ := mcp.GetSessionFromContext(ctx)
			return &mcp.CallToolResult{Content: []mcp.Content{mcp.NewTextContent(se.GetID())}}, nil
		})
		wctx, wcancel := context.WithTimeout(context.Background(), time.Minute)
		res, err := cl.API.CallTool(wctx, callToolReq("whoami", nil))
		wcancel()
		if err == nil {
			sid := textOf(res)
			nSenders := 1 + t.Draw(2)
			for k := 0; k < nSenders; k++ {
				n := 1 + t.Draw(5)
				tasks = append(tasks, s.Go(fmt.Sprintf("sender%d", k), func() {
					for i := 0; i < n; i++ {
						nonce := c.Nonce("s")
						if err := w.SSE.SendNotification(sid, "notifications/verif", map[string]interface{}{"nonce": nonce, "pad": payload("p", c09Sizes[c.T.Draw(4)])}); err == nil {
							c.mu.Lock()
							sent = append(sent, nonce)
							c.mu.Unlock()
						}
						if c.T.Bool(30) {
							s.Sleep(time.Duration(c.T.Pick(1, 29900, 30000)) * time.Millisecond)
						} else {
							s.Yield("sender#next")
						}
					}
				}))
			}
		}
	}
	// concurrent server-side senders on the GET stream
	if variant == "get-stream" {
		sessions, _ := w.Srv.GetActiveSessions()
		nSenders := 1 + t.Draw(3)
		for k := 0; k < nSenders; k++ {
			n := 1 + t.Draw(4)
			tasks = append(tasks, s.Go(fmt.Sprintf("sender%d", k), func() {
				for i := 0; i < n; i++ {
					nonce := c.Nonce("s")
					size := c09Sizes[c.T.Draw(len(c09Sizes))]
					for _, sid := range sessions {
						if err := w.Srv.SendNotification(sid, "notifications/verif", map[string]interface{}{"nonce": nonce, "pad": payload("p", size)}); err == nil {
							c.mu.Lock()
							sent = append(sent, nonce)
							c.mu.Unlock()
						}
					}
					s.Yield("sender#next")
				}
			}))
		}
	}
	c.SetPlan("callers", planned)
	alive := s.WaitTasks(20*time.Minute, tasks...)
	for _, a := range alive {
		s.Violate("C09|stuck|"+variant, "task %s did not finish", a.Name)
	}
	s.Settle(50 * time.Millisecond)

	// ---- oracle: reference readers over the raw byte streams ----
	var frames []wireFrame
	var problems []string
	if variant == "stdio" {
		f, p := pipeFrames(cl.Link.FromSrv, false)
		frames, problems = f, p
		f2, p2 := pipeFrames(cl.Link.ToSrv, false)
		frames = append(frames, f2...)
		problems = append(problems, p2...)
	} else {
		frames, problems = httpFrames(c)
	}
	if len(problems) > 0 {
		s.Violate("C09|frame-corrupt|"+variant, "%d framing problems on the wire, e.g. %s", len(problems), joinProblems(problems))
	}
	for _, e := range s.LibEvents() {
		if strings.Contains(e, "http.ResponseWriter used after the handler returned") {
			s.Violate("C09|write-after-handler-return|"+variant, "a frame writer touched the stream after (or while) its HTTP handler returned - net/http has recycled the buffer by then, the bytes are lost or land in another response: %s", e)
		}
		if strings.Contains(e, "concurrent use of http.ResponseWriter") {
			s.Violate("C09|concurrent-writer-use|"+variant, "two writers were inside Write/Flush of one stream at once (frames tear in a real net/http server): %s", e)
		}
	}
	// every answer that a handler produced appears in exactly one frame
	all := make([]string, 0, len(frames))
	for _, f := range frames {
		all = append(all, string(f.Raw))
	}
	for _, r := range recs {
		if r.err != nil {
			s.Violate(fmt.Sprintf("C09|call-failed|%s|%s", variant, errClass(r.err)), "fault-free run: call %s nonce %s failed: %v", r.tool, r.nonce, r.err)
			continue
		}
		if !strings.HasPrefix(r.got, "r:"+r.nonce+"|") {
			s.Violate("C09|wrong-answer|"+variant, "call nonce %s got %q", r.nonce, short(r.got))
		}
		n := 0
		for _, f := range all {
			if strings.Contains(f, "\"r:"+r.nonce+"|") && strings.Contains(f, "\"result\"") {
				n++
			}
		}
		if n != 1 {
			s.Violate("C09|frame-count|"+variant, "answer to nonce %s appears in %d frames on the wire (want 1)", r.nonce, n)
		}
	}
	// (whether the library client also *handles* each notification is C05's question, not C09's)
	for _, nonce := range sent {
		n := 0
		for _, f := range all {
			if strings.Contains(f, "\"nonce\":\""+nonce+"\"") {
				n++
			}
		}
		if n != 1 {
			s.Violate("C09|frame-count|"+variant, "notification %s was sent successfully once but appears in %d frames on the wire", nonce, n)
		}
	}
	s.Probe("c09.frames")
	cl.API.Close()
}

// c09ClientStdin: the stdio client writes requests (under its request lock) and error answers to
// unknown server requests to the same stdin; a scripted server provokes both at once.
func c09ClientStdin(c *Ctx) {
	s, t := c.S, c.T
	name := "cl"
	toSrv, fromSrv, errp := s.NewPipe(name+".stdin"), s.NewPipe(name+".stdout"), s.NewPipe(name+".stderr")
	exited := make(chan struct{})
	cl, err := mcp.NewStdioClient(mcp.StdioTransportConfig{ServerParams: mcp.StdioServerParameters{Command: "sim"}, Timeout: 30 * time.Second},
		clientInfo, mcp.WithStdioLogger(nopLogger{}))
	if err != nil {
		panic(err)
	}
	nUnknown := 1 + t.Draw(4)
	// scripted server: answers every request; after the first tools/call it also sends requests with unknown methods
	srvTask := s.Go("scripted-server", func() {
		rd := bufio.NewReaderSize(toSrv.Reader(), 1<<20)
		w := fromSrv.Writer()
		sentUnknown := false
		for {
			line, err := rd.ReadBytes('\n')
			if err != nil {
				return
			}
			var m map[string]interface{}
			if json.Unmarshal(line, &m) != nil {
				continue // the oracle below looks at the raw bytes
			}
			id, hasID := m["id"]
			method, _ := m["method"].(string)
			if !hasID || method == "" {
				continue
			}
			var result interface{} = map[string]interface{}{}
			switch method {
			case "initialize":
				result = map[string]interface{}{"protocolVersion": "2025-03-26", "capabilities": map[string]interface{}{}, "serverInfo": map[string]interface{}{"name": "scripted", "version": "0"}}
			case "tools/call":
				if !sentUnknown {
					sentUnknown = true
					for i := 0; i < nUnknown; i++ {
						w.Write(append(rpcReq(1000+i, "verif/unknown", map[string]interface{}{"pad": payload("u", 3000)}), '\n'))
					}
				}
				result = map[string]interface{}{"content": []interface{}{map[string]interface{}{"type": "text", "text": "ok"}}}
			}
			w.Write(append(mustJSON(map[string]interface{}{"jsonrpc": "2.0", "id": id, "result": result}), '\n'))
		}
	})
	mcp.VerifAttachStdio(cl, toSrv.Writer(), fromSrv.Reader(), errp.Reader(), func(cmd *exec.Cmd) { s.RegisterProc(cmd, exited, func() error { return nil }) }, func(n string, f func()) { s.GoLib(name+"/"+n, f) })
	ctx, cancel := context.WithTimeout(context.Background(), 2*time.Minute)
	defer cancel()
	if _, err := cl.Initialize(ctx, &mcp.InitializeRequest{}); err != nil {
		s.Violate("C09|init-failed|stdio-client-stdin", "Initialize against the scripted server failed: %v", err)
		return
	}
	var tasks []*sim.Task
	for k := 0; k < 2+t.Draw(3); k++ {
		size := c09Sizes[t.Draw(len(c09Sizes))]
		tasks = append(tasks, s.Go(fmt.Sprintf("caller%d", k), func() {
			for i := 0; i < 2; i++ {
				cctx, ccancel := context.WithTimeout(context.Background(), time.Minute)
				cl.CallTool(cctx, callToolReq("x", map[string]interface{}{"pad": payload(c.Nonce("n"), size)}))
				ccancel()
			}
		}))
	}
	s.WaitTasks(10*time.Minute, tasks...)
	s.Settle(10 * time.Millisecond)
	_, problems := pipeFrames(toSrv, false)
	if len(problems) > 0 {
		s.Violate("C09|frame-corrupt|stdio-client-stdin", "%d framing problems on the client's stdin stream, e.g. %s", len(problems), joinProblems(problems))
	}
	cl.Close()
	_ = srvTask
}
