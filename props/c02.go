package props

import (
	"context"
	"encoding/json"
	"fmt"
	"reflect"
	"strings"
	"time"

	mcp "trpc.group/trpc-go/trpc-mcp-go"
	"verif/sim"
)

// C02 — what a handler returns is what the caller receives (wire fidelity).
//
// The quantifier is over inputs x configurations: values are *sampled* by a seeded generator; the
// simulator contributes all server modes x all three clients in one process and delivery under
// fragmentation and interleaving with concurrent calls.

func init() {
	register(&Scenario{Prop: "C02", Run: runC02, Opts: sim.Options{MaxSteps: 400000, MaxSimTime: 30 * time.Minute}})
}

var c02StringClasses = []string{"empty", "ascii", "crlf", "u2028", "astral", "controls", "quotes", "64k-1", "64k+1", "1m"}

func c02String(class, tag string, thorough bool) string {
	switch class {
	case "empty":
		return ""
	case "ascii":
		return "plain " + tag
	case "crlf":
		return "a\r\nb\nc\rd " + tag
	case "u2028":
		return "x y z\u0085 " + tag
	case "astral":
		return "😀 𝔘𝔫𝔦 日本語 \U0010FFFF " + tag
	case "controls":
		return "nul\x00 tab\t bell\x07 esc\x1b del\x7f " + tag
	case "quotes":
		return `"quoted" \back\ </script> {"json":1} ` + tag
	case "64k-1":
		return strings.Repeat("k", 65535-len(tag)) + tag
	case "64k+1":
		return strings.Repeat("K", 65537-len(tag)) + tag
	case "1m":
		n := 1 << 20
		if thorough {
			n = 3 << 20
		}
		return strings.Repeat("M", n) + tag
	}
	return tag
}

func c02Annotated(t *sim.Tape) mcp.Annotated {
	var a mcp.Annotated
	if t.Bool(30) {
		a.Annotations = &struct {
			Audience []mcp.Role `json:"audience,omitempty"`
			Priority float64    `json:"priority,omitempty"`
		}{Audience: []mcp.Role{mcp.RoleUser, mcp.RoleAssistant}[:1+t.Draw(2)], Priority: []float64{0.25, 1, 0.5}[t.Draw(3)]}
	}
	return a
}

// c02Content generates one content item; kind and string class go into the description used for signatures.
func c02Content(c *Ctx, tag string) (mcp.Content, string) {
	t := c.T
	class := c02StringClasses[t.Draw(len(c02StringClasses))]
	if c.Tier != "thorough" && class == "1m" && !t.Bool(20) {
		class = "ascii"
	}
	str := c02String(class, tag, c.Tier == "thorough")
	ann := c02Annotated(t)
	annS := ""
	if ann.Annotations != nil {
		annS = "+annotations"
	}
	switch t.Draw(5) {
	case 0, 1:
		x := mcp.NewTextContent(str)
		x.Annotated = ann
		return x, "text/" + class + annS
	case 2:
		x := mcp.NewImageContent("aW1n"+tag, "image/png")
		x.Annotated = ann
		return x, "image" + annS
	case 3:
		x := mcp.NewAudioContent("YXVk"+tag, "audio/wav")
		x.Annotated = ann
		return x, "audio" + annS
	default:
		if t.Bool(50) {
			x := mcp.NewEmbeddedResource(mcp.TextResourceContents{URI: "res://emb/" + tag, MIMEType: "text/plain", Text: str})
			x.Annotated = ann
			return x, "embedded-text/" + class + annS
		}
		blob, kind := "YmxvYg==", "embedded-blob"
		if t.Bool(25) {
			blob, kind = "", "embedded-blob/empty" // an empty file
		}
		x := mcp.NewEmbeddedResource(mcp.BlobResourceContents{URI: "res://emb/" + tag, MIMEType: "application/octet-stream", Blob: blob})
		x.Annotated = ann
		return x, kind + annS
	}
}

func c02Structured(t *sim.Tape, depth int) interface{} {
	switch t.Draw(7) {
	case 0:
		return nil
	case 1:
		return t.Bool(50)
	case 2:
		return []float64{0, -1, 1.5, 9007199254740991, -9007199254740991, 1e-7, 123456789012}[t.Draw(7)]
	case 3:
		return c02String(c02StringClasses[t.Draw(7)], "s", false)
	case 4:
		if depth > 2 {
			return []interface{}{}
		}
		n := t.Draw(3)
		out := make([]interface{}, 0, n)
		for i := 0; i < n; i++ {
			out = append(out, c02Structured(t, depth+1))
		}
		return out
	default:
		if depth > 2 {
			return map[string]interface{}{}
		}
		out := map[string]interface{}{}
		for i := t.Draw(3); i >= 0; i-- {
			out[[]string{"a", "b ", "ключ", "", "x.y"}[t.Draw(5)]] = c02Structured(t, depth+1)
		}
		return out
	}
}

func runC02(c *Ctx) {
	s, t := c.S, c.T
	mode := allModes[int(c.Run)%len(allModes)]
	c.SetPlan("mode", mode)
	w := newWorld(c, mode, "srv")
	s.Net.Faults = sim.NetFaults{ShortRead: t.Pick(0, 30), Delay: t.Pick(0, 5)}

	type toolCase struct {
		name   string
		result *mcp.CallToolResult
		err    string
		kinds  []string
	}
	var tools []*toolCase
	nTools := 1 + t.Draw(3)
	for i := 0; i < nTools; i++ {
		tc := &toolCase{name: fmt.Sprintf("tool%d", i)}
		if t.Bool(12) {
			tc.err = "handler-error-" + c.Nonce("e") + " " + c02String(c02StringClasses[1+t.Draw(6)], "m", false)
		} else {
			r := &mcp.CallToolResult{IsError: t.Bool(20)}
			for n := t.Draw(4); n >= 0; n-- {
				it, kind := c02Content(c, fmt.Sprintf("t%d.%d", i, n))
				r.Content = append(r.Content, it)
				tc.kinds = append(tc.kinds, kind)
			}
			if t.Bool(30) {
				r.StructuredContent = map[string]interface{}{"v": c02Structured(t, 0)}
				tc.kinds = append(tc.kinds, "structured")
			}
			tc.result = r
		}
		tools = append(tools, tc)
	}
	// a prompt and a resource
	promptRes := &mcp.GetPromptResult{Description: c02String(c02StringClasses[t.Draw(7)], "pd", false)}
	var promptKinds []string
	for n := t.Draw(3); n >= 0; n-- {
		it, kind := c02Content(c, fmt.Sprintf("p%d", n))
		promptRes.Messages = append(promptRes.Messages, mcp.PromptMessage{Role: []mcp.Role{mcp.RoleUser, mcp.RoleAssistant}[t.Draw(2)], Content: it})
		promptKinds = append(promptKinds, kind)
	}
	var resContents []mcp.ResourceContents
	var resKinds []string
	for n := t.Draw(2); n >= 0; n-- {
		class := c02StringClasses[t.Draw(len(c02StringClasses)-1)]
		if t.Bool(60) {
			resContents = append(resContents, mcp.TextResourceContents{URI: fmt.Sprintf("res://multi#%d", n), MIMEType: []string{"", "text/plain"}[t.Draw(2)], Text: c02String(class, "r", false)})
			resKinds = append(resKinds, "text-resource/"+class)
		} else {
			blob, kind := "QkxPQg==", "blob-resource"
			if t.Bool(25) {
				blob, kind = "", "blob-resource/empty" // an empty file
			}
			resContents = append(resContents, mcp.BlobResourceContents{URI: fmt.Sprintf("res://multi#%d", n), MIMEType: "application/octet-stream", Blob: blob})
			resKinds = append(resKinds, kind)
		}
	}
	// descriptors
	boolp := func(b bool) *bool { return &b }
	toolDesc := mcp.NewTool("described", mcp.WithDescription(c02String(c02StringClasses[1+t.Draw(6)], "td", false)),
		mcp.WithString("s", mcp.Description("a string"), mcp.Required()), mcp.WithNumber("n"), mcp.WithBoolean("b"),
		mcp.WithToolAnnotations(&mcp.ToolAnnotations{Title: "T " + c02String("u2028", "", false), ReadOnlyHint: boolp(true), DestructiveHint: boolp(false)}))
	promptDesc := &mcp.Prompt{Name: "p-described", Description: c02String(c02StringClasses[1+t.Draw(6)], "pd", false),
		Arguments: []mcp.PromptArgument{{Name: "a1", Description: "first", Required: true}, {Name: "a2"}}}
	resDesc := &mcp.Resource{Name: "r-described", URI: "res://described", Description: c02String(c02StringClasses[1+t.Draw(6)], "rd", false), MimeType: "text/x-verif", Size: 12345}

	w.register(func(r registrar) {
		for _, tc := range tools {
			r.RegisterTool(mcp.NewTool(tc.name), func(ctx context.Context, req *mcp.CallToolRequest) (*mcp.CallToolResult, error) {
				s.Yield("handler")
				if tc.err != "" {
					return nil, fmt.Errorf("%s", tc.err)
				}
				return tc.result, nil
			})
		}
		r.RegisterTool(toolDesc, func(ctx context.Context, req *mcp.CallToolRequest) (*mcp.CallToolResult, error) {
			return &mcp.CallToolResult{Content: []mcp.Content{mcp.NewTextContent("x")}}, nil
		})
		r.RegisterPrompt(&mcp.Prompt{Name: "gen"}, func(ctx context.Context, req *mcp.GetPromptRequest) (*mcp.GetPromptResult, error) {
			return promptRes, nil
		})
		r.RegisterPrompt(promptDesc, func(ctx context.Context, req *mcp.GetPromptRequest) (*mcp.GetPromptResult, error) {
			return &mcp.GetPromptResult{}, nil
		})
		r.RegisterResource(resDesc, func(ctx context.Context, req *mcp.ReadResourceRequest) (mcp.ResourceContents, error) {
			return resContents[0], nil
		})
	})
	switch {
	case w.Srv != nil:
		w.Srv.RegisterResources(&mcp.Resource{Name: "multi", URI: "res://multi"}, func(ctx context.Context, req *mcp.ReadResourceRequest) ([]mcp.ResourceContents, error) {
			return resContents, nil
		})
	case w.SSE != nil:
		w.SSE.RegisterResources(&mcp.Resource{Name: "multi", URI: "res://multi"}, func(ctx context.Context, req *mcp.ReadResourceRequest) ([]mcp.ResourceContents, error) {
			return resContents, nil
		})
	default:
		w.addStdioSetup(func(srv *mcp.StdioServer) {
			srv.RegisterResources(&mcp.Resource{Name: "multi", URI: "res://multi"}, func(ctx context.Context, req *mcp.ReadResourceRequest) ([]mcp.ResourceContents, error) {
				return resContents, nil
			})
		})
	}
	var planned []string
	for _, tc := range tools {
		planned = append(planned, tc.name+": "+strings.Join(tc.kinds, ",")+tc.err)
	}
	c.SetPlan("tools", planned)
	c.SetPlan("prompt", promptKinds)
	c.SetPlan("resource", resKinds)

	cl := w.newClient()
	if err := initClient(c, cl); err != nil {
		s.Violate("C02|init-failed|mode="+mode, "Initialize failed: %v", err)
		return
	}
	transportOf := cl.Kind
	ctxOf := func() (context.Context, context.CancelFunc) {
		return context.WithTimeout(context.Background(), 5*time.Minute)
	}
	diff := func(want, got interface{}) string {
		a, b := normJSON(want), normJSON(got)
		if reflect.DeepEqual(a, b) {
			return ""
		}
		return fmt.Sprintf("handler returned %s, client received %s", short(jsonOf(want)), short(jsonOf(got)))
	}
	var tasks []*sim.Task
	for _, tc := range tools {
		tasks = append(tasks, s.Go("call-"+tc.name, func() {
			ctx, cancel := ctxOf()
			defer cancel()
			res, err := cl.API.CallTool(ctx, callToolReq(tc.name, nil))
			if tc.err != "" {
				if err == nil {
					s.Violate("C02|handler-error-lost|"+transportOf, "handler of %s failed with %q, the client received a result", tc.name, short(tc.err))
				} else if !strings.Contains(err.Error(), tc.err) {
					s.Violate("C02|handler-error-message|"+transportOf, "handler of %s failed with %q, the client's error is %q", tc.name, short(tc.err), short(err.Error()))
				}
				return
			}
			if err != nil {
				// which item kind breaks it?
				s.Violate(fmt.Sprintf("C02|call-failed|%s|%s", c02Culprit(tc.kinds, err), transportOf), "tool returning [%s] -> client error: %v", strings.Join(tc.kinds, ", "), err)
				return
			}
			if res.IsError != tc.result.IsError {
				s.Violate("C02|iserror-flag|"+transportOf, "isError %v became %v", tc.result.IsError, res.IsError)
			}
			if len(res.Content) != len(tc.result.Content) {
				s.Violate("C02|content-count|"+transportOf, "handler returned %d items [%s], client received %d", len(tc.result.Content), strings.Join(tc.kinds, ", "), len(res.Content))
				return
			}
			for i := range tc.result.Content {
				if d := diff(tc.result.Content[i], res.Content[i]); d != "" {
					s.Violate(fmt.Sprintf("C02|content-mismatch|%s|%s", tc.kinds[i], transportOf), "item %d (%s): %s", i, tc.kinds[i], d)
				}
			}
			if d := diff(tc.result.StructuredContent, res.StructuredContent); d != "" {
				s.Violate("C02|structured-mismatch|"+transportOf, "%s", d)
			}
		}))
	}
	tasks = append(tasks, s.Go("get-prompt", func() {
		ctx, cancel := ctxOf()
		defer cancel()
		res, err := cl.API.GetPrompt(ctx, getPromptReq("gen", nil))
		if err != nil {
			s.Violate(fmt.Sprintf("C02|prompt-failed|%s|%s", c02Culprit(promptKinds, err), transportOf), "prompt returning [%s] -> client error: %v", strings.Join(promptKinds, ", "), err)
			return
		}
		if res.Description != promptRes.Description {
			s.Violate("C02|prompt-description|"+transportOf, "description %q became %q", short(promptRes.Description), short(res.Description))
		}
		if len(res.Messages) != len(promptRes.Messages) {
			s.Violate("C02|prompt-message-count|"+transportOf, "%d messages became %d", len(promptRes.Messages), len(res.Messages))
			return
		}
		for i := range promptRes.Messages {
			if res.Messages[i].Role != promptRes.Messages[i].Role {
				s.Violate("C02|prompt-role|"+transportOf, "message %d role %q became %q", i, promptRes.Messages[i].Role, res.Messages[i].Role)
			}
			if d := diff(promptRes.Messages[i].Content, res.Messages[i].Content); d != "" {
				s.Violate(fmt.Sprintf("C02|prompt-content-mismatch|%s|%s", promptKinds[i], transportOf), "message %d (%s): %s", i, promptKinds[i], d)
			}
		}
	}))
	tasks = append(tasks, s.Go("read-resource", func() {
		ctx, cancel := ctxOf()
		defer cancel()
		res, err := cl.API.ReadResource(ctx, readResourceReq("res://multi", nil))
		if err != nil {
			s.Violate(fmt.Sprintf("C02|resource-failed|%s|%s", c02Culprit(resKinds, err), transportOf), "resource returning [%s] -> client error: %v", strings.Join(resKinds, ", "), err)
			return
		}
		if len(res.Contents) != len(resContents) {
			s.Violate("C02|resource-count|"+transportOf, "%d contents became %d", len(resContents), len(res.Contents))
			return
		}
		for i := range resContents {
			if d := diff(resContents[i], res.Contents[i]); d != "" {
				s.Violate(fmt.Sprintf("C02|resource-mismatch|%s|%s", resKinds[i], transportOf), "contents %d (%s): %s", i, resKinds[i], d)
			}
		}
	}))
	// listDescriptors compares what the client lists with the descriptors registered last
	// (toolDesc == nil: the tool is not registered at the moment and must not be listed).
	listDescriptors := func(phase string, toolDesc *mcp.Tool, promptDesc *mcp.Prompt, resDesc *mcp.Resource) {
		ctx, cancel := ctxOf()
		defer cancel()
		if lt, err := cl.API.ListTools(ctx, &mcp.ListToolsRequest{}); err != nil {
			s.Violate("C02|list-tools-failed|"+transportOf, "%v", err)
		} else {
			found := false
			for _, x := range lt.Tools {
				if x.Name != "described" {
					continue
				}
				found = true
				if toolDesc == nil {
					s.Violate("C02|unregistered-tool-listed|"+transportOf, "%s: the tool was unregistered and is still listed", phase)
					continue
				}
				if x.Description != toolDesc.Description {
					s.Violate("C02|tool-description|"+transportOf, "%s: %q is listed as %q", phase, short(toolDesc.Description), short(x.Description))
				}
				if d := diff(toolDesc.Annotations, x.Annotations); d != "" {
					s.Violate("C02|tool-annotations|"+transportOf, "%s: %s", phase, d)
				}
				var got interface{}
				json.Unmarshal(x.RawInputSchema, &got)
				if d := diff(toolDesc.InputSchema, got); d != "" {
					s.Violate("C02|tool-schema|"+transportOf, "%s: %s", phase, d)
				}
			}
			if !found && toolDesc != nil {
				s.Violate("C02|tool-missing|"+transportOf, "%s: registered tool is not listed", phase)
			}
		}
		if lp, err := cl.API.ListPrompts(ctx, &mcp.ListPromptsRequest{}); err != nil {
			s.Violate("C02|list-prompts-failed|"+transportOf, "%v", err)
		} else {
			for _, x := range lp.Prompts {
				if x.Name == "p-described" {
					if d := diff(promptDesc, x); d != "" {
						s.Violate("C02|prompt-descriptor|"+transportOf, "%s: %s", phase, d)
					}
				}
			}
		}
		if lr, err := cl.API.ListResources(ctx, &mcp.ListResourcesRequest{}); err != nil {
			s.Violate("C02|list-resources-failed|"+transportOf, "%v", err)
		} else {
			for _, x := range lr.Resources {
				if x.Name == "r-described" {
					if d := diff(resDesc, x); d != "" {
						s.Violate("C02|resource-descriptor|"+transportOf, "%s: %s", phase, d)
					}
				}
			}
		}
	}
	tasks = append(tasks, s.Go("descriptors", func() { listDescriptors("first listing", toolDesc, promptDesc, resDesc) }))
	for _, a := range s.WaitTasks(25*time.Minute, tasks...) {
		s.Violate("C02|stuck|mode="+mode, "%s did not finish", a.Name)
	}
	// ---- descriptor histories: "the ones registered" are the ones registered last ----
	// register / list / re-register under the same name / unregister / list again; the listing
	// always shows the latest registration, and calls reach the latest handler.
	curTool, curPrompt, curRes := toolDesc, promptDesc, resDesc
	toolVersion := "x"
	for round, n := 1, t.Draw(4); round <= n; round++ {
		ver := fmt.Sprintf("v%d", round)
		op := []string{"tool", "tool", "prompt", "resource", "unregister-tool", "unregister-register"}[t.Draw(6)]
		phase := fmt.Sprintf("listing %d after %s", round+1, op)
		w.register(func(r registrar) {
			switch op {
			case "tool", "unregister-register":
				if op == "unregister-register" {
					r.UnregisterTools("described")
				}
				curTool = mcp.NewTool("described", mcp.WithDescription("description "+ver+" "+c02String(c02StringClasses[1+t.Draw(6)], "td", false)),
					mcp.WithString("s"+ver, mcp.Description("a string "+ver)), mcp.WithNumber("n"),
					mcp.WithToolAnnotations(&mcp.ToolAnnotations{Title: "T " + ver, ReadOnlyHint: boolp(round%2 == 0), IdempotentHint: boolp(true)}))
				toolVersion = ver
				r.RegisterTool(curTool, func(ctx context.Context, req *mcp.CallToolRequest) (*mcp.CallToolResult, error) {
					return &mcp.CallToolResult{Content: []mcp.Content{mcp.NewTextContent(ver)}}, nil
				})
			case "prompt":
				curPrompt = &mcp.Prompt{Name: "p-described", Description: "prompt " + ver, Arguments: []mcp.PromptArgument{{Name: "a" + ver, Required: round%2 == 1}}}
				r.RegisterPrompt(curPrompt, func(ctx context.Context, req *mcp.GetPromptRequest) (*mcp.GetPromptResult, error) {
					return &mcp.GetPromptResult{Description: ver}, nil
				})
			case "resource":
				curRes = &mcp.Resource{Name: "r-described", URI: "res://described", Description: "resource " + ver, MimeType: "text/" + ver, Size: int64(round)}
				r.RegisterResource(curRes, func(ctx context.Context, req *mcp.ReadResourceRequest) (mcp.ResourceContents, error) {
					return mcp.TextResourceContents{URI: "res://described", Text: ver}, nil
				})
			case "unregister-tool":
				r.UnregisterTools("described")
				curTool = nil
			}
		})
		listDescriptors(phase, curTool, curPrompt, curRes)
		if curTool != nil {
			ctx, cancel := ctxOf()
			res, err := cl.API.CallTool(ctx, callToolReq("described", map[string]interface{}{"s": "x", "s" + toolVersion: "x"}))
			cancel()
			if err != nil {
				s.Violate("C02|call-after-reregistration-failed|"+transportOf, "%s: %v", phase, err)
			} else if got := textOf(res); got != toolVersion {
				s.Violate("C02|stale-handler|"+transportOf, "%s: the call reached the handler of version %q, the latest registration is %q", phase, got, toolVersion)
			}
		}
		s.Probe("c02.descriptor_history." + op)
	}
	// raw wire bytes through the shared schema oracle
	if _, problems := httpFrames(c); len(problems) > 0 && mode != "stdio" {
		s.Violate("C02|wire-frame|mode="+mode, "%s", joinProblems(problems))
	}
	cl.API.Close()
	s.Probe("c02.mode." + mode)
}

// c02Culprit guesses which content kind a decode failure is about (for narrow signatures).
func c02Culprit(kinds []string, err error) string {
	m := err.Error()
	pick := func(prefix string) string {
		for _, k := range kinds {
			if strings.HasPrefix(k, prefix) {
				return k
			}
		}
		return ""
	}
	switch {
	case strings.Contains(m, "unsupported content type: audio"):
		return "audio"
	case strings.Contains(m, "text is missing"):
		if k := pick("text/empty"); k != "" {
			return "text/empty"
		}
	case strings.Contains(m, "unsupported resource type"):
		if k := pick("embedded-text/empty"); k != "" {
			return "embedded-text/empty"
		}
		if k := pick("text-resource/empty"); k != "" {
			return "text-resource/empty"
		}
	case strings.Contains(m, "unsupported content type"):
		return "unsupported-content-type"
	}
	return "other:" + errClass(err)
}
