package props

import (
	"context"
	"encoding/json"
	"fmt"
	"io"
	"net/http"
	"net/http/httptest"
	"os"
	"reflect"
	"strings"
	"testing"
	"time"

	"verif/sim"
)

// Stub conformance (DESIGN.md §5): the same handler scripts and client scripts are run once over
// real loopback sockets (net/http server and transport, real clock) and once on the simulated
// network inside a bubble; what either side can observe must be equal.  This is a test of the
// *machinery* (trusted base), not of a property: a mismatch exits 2 through ./check conformance.

type confObs struct {
	ClientErr   string // class of the error of client.Do ("" = response received)
	Status      int
	ContentType string
	Early       string // header set before the headers were frozen
	Late        string // header set after WriteHeader / first Write: must not be visible
	NoSniff     string
	Body        string
	BodyErr     string // "", "unexpected-eof", "canceled", ...
	Streamed    bool   // the client saw the first chunk while the handler was still running
	SrvCtxDone  bool   // the handler saw its request context cancelled
	SrvWriteErr bool   // a write after the peer had gone eventually failed
	HeadersSeen bool   // the client had the response headers while the handler was still waiting
	Flusher     bool
	Echo        string
}

type confSync struct {
	gate    chan struct{} // closed by the client
	srvDone chan struct{} // closed by the handler when it is about to return
	srv     confObs       // the handler's observations (read after srvDone)
}

type confCase struct {
	name    string
	handler func(y *confSync, w http.ResponseWriter, r *http.Request)
	client  func(y *confSync, cl *http.Client, url string, o *confObs)
}

// confSimConn: applied to every simulated connection of the named case (what a real client does by
// simply not reading has to be said explicitly to the simulated one)
var confSimConn = map[string]func(c *sim.Conn){
	"write-deadline-unblocks-a-write-to-a-peer-that-does-not-read": func(c *sim.Conn) { c.StopReading(8 << 10) },
}

func confErrClass(err error) string {
	if err == nil {
		return ""
	}
	m := err.Error()
	switch {
	case strings.Contains(m, "context canceled"):
		return "canceled"
	case strings.Contains(m, "deadline exceeded"):
		return "deadline"
	case strings.Contains(m, "unexpected EOF"):
		return "unexpected-eof"
	case strings.Contains(m, "EOF"):
		return "eof"
	case strings.Contains(m, "reset"):
		return "reset"
	case strings.Contains(m, "refused"):
		return "refused"
	}
	return "other: " + m
}

func confWait(ch chan struct{}, d time.Duration) bool {
	select {
	case <-ch:
		return true
	case <-time.After(d):
		return false
	}
}

// confGet performs a GET and fills the response-level observations.
func confGet(ctx context.Context, cl *http.Client, url string, o *confObs) *http.Response {
	req, _ := http.NewRequestWithContext(ctx, "GET", url, nil)
	resp, err := cl.Do(req)
	if err != nil {
		o.ClientErr = confErrClass(err)
		return nil
	}
	o.Status = resp.StatusCode
	o.ContentType = resp.Header.Get("Content-Type")
	o.Early = resp.Header.Get("X-Early")
	o.Late = resp.Header.Get("X-Late")
	o.NoSniff = resp.Header.Get("X-Content-Type-Options")
	return resp
}

func confReadAll(resp *http.Response, o *confObs) {
	b, err := io.ReadAll(resp.Body)
	o.Body += string(b)
	o.BodyErr = confErrClass(err)
	resp.Body.Close()
}

func confSimple(y *confSync, cl *http.Client, url string, o *confObs) {
	if resp := confGet(context.Background(), cl, url, o); resp != nil {
		confReadAll(resp, o)
	}
}

var confCases = []confCase{
	{"implicit-200", func(y *confSync, w http.ResponseWriter, r *http.Request) {
		_, y.srv.Flusher = w.(http.Flusher)
		w.Write([]byte("hello"))
	}, confSimple},
	{"explicit-404-headers-frozen", func(y *confSync, w http.ResponseWriter, r *http.Request) {
		w.Header().Set("X-Early", "1")
		w.WriteHeader(404)
		w.Header().Set("X-Late", "1")
		w.WriteHeader(500) // superfluous: ignored
		w.Write([]byte("nf"))
	}, confSimple},
	{"headers-frozen-by-first-write", func(y *confSync, w http.ResponseWriter, r *http.Request) {
		w.Header().Set("X-Early", "1")
		w.Write([]byte("x"))
		w.Header().Set("X-Late", "1")
		w.WriteHeader(500)
	}, confSimple},
	{"http.Error", func(y *confSync, w http.ResponseWriter, r *http.Request) {
		http.Error(w, "bad", 400)
	}, confSimple},
	{"no-write", func(y *confSync, w http.ResponseWriter, r *http.Request) {}, confSimple},
	{"status-only-202", func(y *confSync, w http.ResponseWriter, r *http.Request) { w.WriteHeader(202) }, confSimple},
	{"sniff-json-is-text", func(y *confSync, w http.ResponseWriter, r *http.Request) {
		w.Write([]byte(`{"a":1}`))
	}, confSimple},
	{"sniff-html", func(y *confSync, w http.ResponseWriter, r *http.Request) {
		w.Write([]byte("<html><body>x</body></html>"))
	}, confSimple},
	{"content-type-kept", func(y *confSync, w http.ResponseWriter, r *http.Request) {
		w.Header().Set("Content-Type", "application/json")
		w.Write([]byte("<html>"))
	}, confSimple},
	{"flush-before-write-sends-200", func(y *confSync, w http.ResponseWriter, r *http.Request) {
		w.Header().Set("X-Early", "1")
		w.(http.Flusher).Flush()
		w.Header().Set("X-Late", "1")
		w.WriteHeader(404)
		w.Write([]byte("late"))
	}, confSimple},
	{"stream-with-flush", func(y *confSync, w http.ResponseWriter, r *http.Request) {
		w.Header().Set("Content-Type", "text/event-stream")
		w.Write([]byte("a"))
		w.(http.Flusher).Flush()
		confWait(y.gate, 5*time.Second)
		w.Write([]byte("b"))
	}, func(y *confSync, cl *http.Client, url string, o *confObs) {
		resp := confGet(context.Background(), cl, url, o)
		if resp == nil {
			close(y.gate)
			return
		}
		one := make([]byte, 1)
		n, _ := io.ReadFull(resp.Body, one)
		o.Body = string(one[:n])
		select {
		case <-y.srvDone:
		default:
			o.Streamed = n == 1
		}
		close(y.gate)
		confReadAll(resp, o)
	}},
	{"small-write-without-flush-is-not-visible", func(y *confSync, w http.ResponseWriter, r *http.Request) {
		w.Write([]byte("a"))
		y.srv.HeadersSeen = confWait(y.gate, 300*time.Millisecond)
	}, func(y *confSync, cl *http.Client, url string, o *confObs) {
		resp := confGet(context.Background(), cl, url, o)
		close(y.gate)
		if resp != nil {
			confReadAll(resp, o)
		}
	}},
	{"large-write-without-flush-becomes-visible", func(y *confSync, w http.ResponseWriter, r *http.Request) {
		for i := 0; i < 10; i++ {
			w.Write([]byte(strings.Repeat("0123456789", 1000)))
		}
		y.srv.HeadersSeen = confWait(y.gate, 5*time.Second)
	}, func(y *confSync, cl *http.Client, url string, o *confObs) {
		resp := confGet(context.Background(), cl, url, o)
		close(y.gate)
		if resp != nil {
			b, err := io.ReadAll(resp.Body)
			o.Body = fmt.Sprintf("%d bytes", len(b))
			o.BodyErr = confErrClass(err)
			resp.Body.Close()
		}
	}},
	{"client-cancels-before-headers", func(y *confSync, w http.ResponseWriter, r *http.Request) {
		select {
		case <-r.Context().Done():
			y.srv.SrvCtxDone = true
		case <-time.After(5 * time.Second):
		}
	}, func(y *confSync, cl *http.Client, url string, o *confObs) {
		ctx, cancel := context.WithCancel(context.Background())
		go func() {
			time.Sleep(50 * time.Millisecond)
			cancel()
		}()
		if resp := confGet(ctx, cl, url, o); resp != nil {
			confReadAll(resp, o)
		}
		confWait(y.srvDone, 6*time.Second)
	}},
	{"client-cancels-while-reading", func(y *confSync, w http.ResponseWriter, r *http.Request) {
		w.Write([]byte("a"))
		w.(http.Flusher).Flush()
		select {
		case <-r.Context().Done():
			y.srv.SrvCtxDone = true
		case <-time.After(5 * time.Second):
		}
	}, func(y *confSync, cl *http.Client, url string, o *confObs) {
		ctx, cancel := context.WithCancel(context.Background())
		resp := confGet(ctx, cl, url, o)
		if resp == nil {
			return
		}
		go func() {
			time.Sleep(50 * time.Millisecond)
			cancel()
		}()
		confReadAll(resp, o)
		confWait(y.srvDone, 6*time.Second)
	}},
	{"client-closes-body-mid-stream", func(y *confSync, w http.ResponseWriter, r *http.Request) {
		w.Write([]byte("a"))
		w.(http.Flusher).Flush()
		select {
		case <-r.Context().Done():
			y.srv.SrvCtxDone = true
		case <-time.After(5 * time.Second):
		}
		for i := 0; i < 200 && !y.srv.SrvWriteErr; i++ {
			if _, err := w.Write([]byte(strings.Repeat("x", 32<<10))); err != nil {
				y.srv.SrvWriteErr = true
			}
			w.(http.Flusher).Flush()
		}
	}, func(y *confSync, cl *http.Client, url string, o *confObs) {
		resp := confGet(context.Background(), cl, url, o)
		if resp == nil {
			return
		}
		one := make([]byte, 1)
		n, _ := io.ReadFull(resp.Body, one)
		o.Body = string(one[:n])
		resp.Body.Close()
		confWait(y.srvDone, 8*time.Second)
	}},
	{"handler-panics-before-writing", func(y *confSync, w http.ResponseWriter, r *http.Request) {
		panic(http.ErrAbortHandler)
	}, confSimple},
	{"handler-panics-after-flush", func(y *confSync, w http.ResponseWriter, r *http.Request) {
		w.Write([]byte("a"))
		w.(http.Flusher).Flush()
		panic(http.ErrAbortHandler)
	}, confSimple},
	{"request-is-delivered-intact", func(y *confSync, w http.ResponseWriter, r *http.Request) {
		b, _ := io.ReadAll(r.Body)
		e, _ := json.Marshal([]string{r.Method, r.URL.Path, r.URL.RawQuery, r.Header.Get("X-A"), strings.Join(r.Header.Values("X-Multi"), ","), string(b), r.Header.Get("Content-Type")})
		w.Header().Set("Content-Type", "application/json")
		w.Write(e)
	}, func(y *confSync, cl *http.Client, url string, o *confObs) {
		req, _ := http.NewRequest("POST", url, strings.NewReader(strings.Repeat("payload ", 3000)))
		req.Header.Set("X-A", "va")
		req.Header.Add("X-Multi", "1")
		req.Header.Add("X-Multi", "2")
		req.Header.Set("Content-Type", "application/json")
		resp, err := cl.Do(req)
		if err != nil {
			o.ClientErr = confErrClass(err)
			return
		}
		o.Status = resp.StatusCode
		b, _ := io.ReadAll(resp.Body)
		resp.Body.Close()
		o.Echo = fmt.Sprintf("%x", len(b)) + ":" + string(b[:60])
	}},
	{"write-deadline-unblocks-a-write-to-a-peer-that-does-not-read", func(y *confSync, w http.ResponseWriter, r *http.Request) {
		w.Write([]byte("a"))
		w.(http.Flusher).Flush()
		go func() {
			time.Sleep(300 * time.Millisecond)
			http.NewResponseController(w).SetWriteDeadline(time.Now())
		}()
		chunk := []byte(strings.Repeat("x", 64<<10))
		for i := 0; i < 4000 && !y.srv.SrvWriteErr; i++ { // up to 256 MB: more than any socket buffer
			if _, err := w.Write(chunk); err != nil {
				y.srv.SrvWriteErr = true
			}
		}
	}, func(y *confSync, cl *http.Client, url string, o *confObs) {
		resp := confGet(context.Background(), cl, url, o)
		if resp == nil {
			return
		}
		one := make([]byte, 1)
		n, _ := io.ReadFull(resp.Body, one)
		o.Body = string(one[:n])
		confWait(y.srvDone, 20*time.Second) // does not read on
		resp.Body.Close()
	}},
	{"expired-write-deadline-left-behind-truncates-the-response", func(y *confSync, w http.ResponseWriter, r *http.Request) {
		w.Write([]byte("a"))
		w.(http.Flusher).Flush()
		http.NewResponseController(w).SetWriteDeadline(time.Now())
	}, confSimple},
	{"write-deadline-lifted-again-ends-the-response-in-order", func(y *confSync, w http.ResponseWriter, r *http.Request) {
		w.Write([]byte("a"))
		w.(http.Flusher).Flush()
		rc := http.NewResponseController(w)
		rc.SetWriteDeadline(time.Now())
		rc.SetWriteDeadline(time.Time{})
	}, confSimple},
	{"deadline-passes-before-headers", func(y *confSync, w http.ResponseWriter, r *http.Request) {
		select {
		case <-r.Context().Done():
			y.srv.SrvCtxDone = true
		case <-time.After(5 * time.Second):
		}
	}, func(y *confSync, cl *http.Client, url string, o *confObs) {
		ctx, cancel := context.WithTimeout(context.Background(), 50*time.Millisecond)
		defer cancel()
		if resp := confGet(ctx, cl, url, o); resp != nil {
			confReadAll(resp, o)
		}
		confWait(y.srvDone, 6*time.Second)
	}},
}

func confHandler(cs confCase, y *confSync) http.Handler {
	return http.HandlerFunc(func(w http.ResponseWriter, r *http.Request) {
		defer close(y.srvDone)
		cs.handler(y, w, r)
	})
}

func confMerge(o *confObs, y *confSync) {
	select {
	case <-y.srvDone:
		o.SrvCtxDone, o.SrvWriteErr, o.HeadersSeen, o.Flusher = y.srv.SrvCtxDone, y.srv.SrvWriteErr, y.srv.HeadersSeen, y.srv.Flusher
	case <-time.After(10 * time.Second):
		o.Echo += " <handler still running>"
	}
}

func TestStubConformance(t *testing.T) {
	if os.Getenv("VERIF_CONFORMANCE") == "" {
		t.Skip("run through ./check conformance")
	}
	bad := 0
	for _, cs := range confCases {
		// real sockets, real clock
		var realObs confObs
		{
			y := &confSync{gate: make(chan struct{}), srvDone: make(chan struct{})}
			srv := httptest.NewUnstartedServer(confHandler(cs, y))
			srv.Config.ErrorLog = nil
			srv.Start()
			tr := &http.Transport{}
			cs.client(y, &http.Client{Transport: tr}, srv.URL+"/p/q?x=1&y=2", &realObs)
			confMerge(&realObs, y)
			tr.CloseIdleConnections()
			srv.CloseClientConnections()
			srv.Close()
		}
		// simulated network, several schedules
		for run := uint64(0); run < 8; run++ {
			var simObs confObs
			done := make(chan struct{})
			go func() {
				defer close(done)
				sim.Execute(t, sim.NewTape(77, run), sim.Options{MaxSteps: 200000, MaxSimTime: time.Hour}, func(s *sim.Sim) {
					y := &confSync{gate: make(chan struct{}), srvDone: make(chan struct{})}
					s.Net.Serve("srv", confHandler(cs, y))
					if f := confSimConn[cs.name]; f != nil {
						s.Net.OnConn = f
					}
					if run%2 == 1 {
						s.Net.Faults = sim.NetFaults{ShortRead: 30, Delay: 20}
					}
					cs.client(y, s.Net.Client(), "http://srv/p/q?x=1&y=2", &simObs)
					confMerge(&simObs, y)
				})
			}()
			<-done
			if !reflect.DeepEqual(realObs, simObs) {
				bad++
				fmt.Printf("CONFORMANCE MISMATCH %s (sim run %d)\n  real: %+v\n  sim:  %+v\n", cs.name, run, realObs, simObs)
				break
			}
		}
		fmt.Printf("conformance %-45s %+v\n", cs.name, realObs)
	}
	fmt.Printf("conformance: %d cases, %d mismatches\n", len(confCases), bad)
	if bad > 0 {
		os.Exit(4)
	}
}
