package props

import (
	"context"
	"encoding/json"
	"fmt"
	"reflect"
	"strings"
	"time"

	mcp "trpc.group/trpc-go/trpc-mcp-go"
	"verif/sim"
)

// C10 — in-call notifications arrive complete, in order and before the result.

func init() {
	register(&Scenario{Prop: "C10", Run: runC10, Opts: sim.Options{MaxSteps: 150000, MaxSimTime: 30 * time.Minute}})
}

type c10Notif struct {
	Method  string `json:"method,omitempty"` // for kind "own": the caller's private method
	Kind    string `json:"kind"`             // progress | log | custom | own
	Size    int    `json:"size"`
	Meta    bool   `json:"meta"`
	SleepMs int    `json:"sleep_ms"`
}

func normJSON(v interface{}) interface{} {
	b, err := json.Marshal(v)
	if err != nil {
		return fmt.Sprintf("<unmarshalable: %v>", err)
	}
	var out interface{}
	json.Unmarshal(b, &out)
	return out
}

func runC10(c *Ctx) {
	s, t := c.S, c.T
	mode := []string{"post-sse", "post-sse", "stateless", "json"}[t.Draw(4)]
	handlers := []string{"all", "all", "some", "none"}[t.Draw(4)]
	c.SetPlan("mode", mode)
	c.SetPlan("handlers", handlers)
	w := newWorld(c, mode, "srv")
	s.Net.Faults = sim.NetFaults{ShortRead: t.Pick(0, 20), Delay: t.Pick(0, 10)}

	type emitted struct {
		method string
		params map[string]interface{}
		meta   map[string]interface{}
	}
	emittedBy := map[string][]emitted{} // call nonce -> sequence
	w.Reg.RegisterTool(mcp.NewTool("notify", mcp.WithString("nonce")),
		func(ctx context.Context, req *mcp.CallToolRequest) (*mcp.CallToolResult, error) {
			nonce, _ := req.Params.Arguments["nonce"].(string)
			var plan []c10Notif
			b, _ := json.Marshal(req.Params.Arguments["plan"])
			json.Unmarshal(b, &plan)
			sender, ok := mcp.GetNotificationSender(ctx)
			if !ok {
				return nil, fmt.Errorf("no notification sender in context")
			}
			for i, n := range plan {
				if n.SleepMs > 0 {
					s.Sleep(time.Duration(n.SleepMs) * time.Millisecond)
				} else {
					s.Yield("handler#emit")
				}
				pad := strings.Repeat("x", n.Size)
				var em emitted
				var err error
				switch n.Kind {
				case "progress":
					em.method = "notifications/progress"
					msg := fmt.Sprintf("%s#%d|%s", nonce, i, pad)
					em.params = map[string]interface{}{"progress": float64(i), "message": msg,
						"data": map[string]interface{}{"type": "process_progress", "progress": float64(i), "message": msg}}
					err = sender.SendProgress(float64(i), msg)
				case "log":
					em.method = "notifications/message"
					msg := fmt.Sprintf("%s#%d|%s", nonce, i, pad)
					em.params = map[string]interface{}{"level": "info", "data": map[string]interface{}{"type": "log_message", "message": msg}}
					err = sender.SendLogMessage("info", msg)
				default:
					em.method = "notifications/custom"
					if n.Kind == "own" && n.Method != "" {
						em.method = n.Method
					}
					p := map[string]interface{}{"tag": fmt.Sprintf("%s#%d", nonce, i), "pad": pad, "n": float64(i), "nested": map[string]interface{}{"a": []interface{}{1.0, "two", nil}}}
					em.params = map[string]interface{}{}
					for k, v := range p {
						em.params[k] = v
					}
					if n.Meta {
						em.meta = map[string]interface{}{"progressToken": fmt.Sprintf("tok-%s", nonce), "k": fmt.Sprint(i)}
						// the same _meta under the Go types a caller may reasonably use
						switch (i + len(nonce)) % 3 {
						case 0:
							p["_meta"] = map[string]interface{}{"progressToken": fmt.Sprintf("tok-%s", nonce), "k": fmt.Sprint(i)}
						case 1:
							p["_meta"] = mcp.Meta{"progressToken": fmt.Sprintf("tok-%s", nonce), "k": fmt.Sprint(i)}
						case 2:
							p["_meta"] = map[string]string{"progressToken": fmt.Sprintf("tok-%s", nonce), "k": fmt.Sprint(i)}
						}
					}
					err = sender.SendCustomNotification(em.method, p)
				}
				if err != nil {
					return nil, fmt.Errorf("send %d: %w", i, err)
				}
				c.mu.Lock()
				emittedBy[nonce] = append(emittedBy[nonce], em)
				c.mu.Unlock()
			}
			return &mcp.CallToolResult{Content: []mcp.Content{mcp.NewTextContent("r:" + nonce)}}, nil
		})

	cl := w.newClient()
	type got struct {
		method string
		params map[string]interface{}
		meta   map[string]interface{}
		late   bool
	}
	received := map[string][]got{}
	returned := map[string]bool{}
	inHandler := map[string]int{}
	overlapped := map[string]bool{}
	slowHandler := false
	slowFor := time.Millisecond
	tagOf := func(n *mcp.JSONRPCNotification) string {
		f := n.Params.AdditionalFields
		if v, ok := f["tag"].(string); ok {
			return v
		}
		if v, ok := f["message"].(string); ok {
			return v
		}
		if d, ok := f["data"].(map[string]interface{}); ok {
			if v, ok := d["message"].(string); ok {
				return v
			}
		}
		return ""
	}
	mk := func(method string) mcp.NotificationHandler {
		return func(n *mcp.JSONRPCNotification) error {
			tag := tagOf(n)
			nonce := tag
			if i := strings.IndexByte(tag, '#'); i >= 0 {
				nonce = tag[:i]
			}
			c.mu.Lock()
			received[nonce] = append(received[nonce], got{method: n.Method, params: n.Params.AdditionalFields, meta: n.Params.Meta, late: returned[nonce]})
			inHandler[nonce]++
			if inHandler[nonce] > 1 {
				overlapped[nonce] = true
			}
			c.mu.Unlock()
			if slowHandler {
				s.Sleep(slowFor)
			} else {
				s.Yield("client-handler")
			}
			c.mu.Lock()
			inHandler[nonce]--
			c.mu.Unlock()
			return nil
		}
	}
	registered := map[string]bool{}
	switch handlers {
	case "all":
		for _, m := range []string{"notifications/progress", "notifications/message", "notifications/custom"} {
			cl.HTTP.RegisterNotificationHandler(m, mk(m))
			registered[m] = true
		}
	case "some":
		cl.HTTP.RegisterNotificationHandler("notifications/custom", mk("notifications/custom"))
		registered["notifications/custom"] = true
	}
	if err := initClient(c, cl); err != nil {
		s.Violate("C10|init-failed|"+mode, "Initialize failed: %v", err)
		return
	}
	nCalls := 1 + t.Draw(3)
	maxN := 6
	if c.Tier == "thorough" {
		maxN = 40
	}
	// a burst longer than any queue a client may put between its stream reader and its handlers,
	// with handlers slower than the reader
	burst := t.Bool(8)
	slowHandler = burst || t.Bool(15)
	if burst {
		maxN = 70 + t.Draw(130)
	}
	// ... some of them much slower: whatever a client puts between its reader and its handlers
	// must not give up on a handler that merely takes its time (the calls' own deadline is 5 min)
	if slowHandler {
		slowFor = time.Duration(t.Pick(1, 1, 40, 300, 2000)) * time.Millisecond
		if burst && slowFor > 300*time.Millisecond {
			slowFor = 300 * time.Millisecond
		}
		if slowFor >= 300*time.Millisecond {
			s.Probe("c10.handlers_slower_than_300ms")
		}
	}
	c.SetPlan("slow_handler_ms", int(slowFor/time.Millisecond))
	c.SetPlan("burst", burst)
	c.SetPlan("slow_handler", slowHandler)
	type callT struct {
		nonce     string
		plan      []c10Notif
		err       error
		got       string
		ownMethod string
	}
	sseMode0 := mode == "post-sse" || mode == "stateless"
	var calls []*callT
	var tasks []*sim.Task
	for k := 0; k < nCalls; k++ {
		cc := &callT{nonce: c.Nonce("n")}
		if burst && k == 0 {
			for n := maxN; n > 0; n-- {
				cc.plan = append(cc.plan, c10Notif{Kind: []string{"progress", "log", "custom"}[t.Draw(3)], Size: t.Pick(0, 0, 10), Meta: t.Bool(20)})
			}
		} else {
			lim := maxN
			if burst {
				lim = 6
			}
			for n := t.Draw(lim + 1); n > 0; n-- {
				cc.plan = append(cc.plan, c10Notif{Kind: []string{"progress", "log", "custom"}[t.Draw(3)], Size: t.Pick(0, 0, 10, 5000, 70000), Meta: t.Bool(50), SleepMs: t.Pick(0, 0, 0, 1, 3)})
			}
		}
		// a handler registered by the caller right before its call (while other calls of the same
		// client are in flight) for a method only this call uses: the registration has returned
		// before the call starts, so every such notification of the call must reach it
		if k > 0 && sseMode0 && t.Bool(50) {
			cc.ownMethod = fmt.Sprintf("notifications/own%d", k)
			for i := range cc.plan {
				if cc.plan[i].Kind == "custom" && t.Bool(70) {
					cc.plan[i].Kind = "own"
					cc.plan[i].Method = cc.ownMethod
				}
			}
		}
		calls = append(calls, cc)
		tasks = append(tasks, s.Go(fmt.Sprintf("call%d", k), func() {
			ctx, cancel := context.WithTimeout(context.Background(), 5*time.Minute)
			defer cancel()
			if cc.ownMethod != "" {
				for i := c.T.Draw(90); i > 0; i-- {
					s.Yield("registrar#wait")
				}
				cl.HTTP.RegisterNotificationHandler(cc.ownMethod, mk(cc.ownMethod))
				c.mu.Lock()
				registered[cc.ownMethod] = true
				c.mu.Unlock()
				s.Probe("c10.registered_before_own_call")
			}
			res, err := cl.API.CallTool(ctx, callToolReq("notify", map[string]interface{}{"nonce": cc.nonce, "plan": cc.plan}))
			c.mu.Lock()
			returned[cc.nonce] = true
			c.mu.Unlock()
			cc.err = err
			if err == nil {
				cc.got = textOf(res)
			}
		}))
	}
	c.SetPlan("calls", calls)
	// registrations of an unrelated method come and go while the calls run: they must not disturb
	// what the handlers registered for the calls' methods receive
	if sseMode0 && t.Bool(40) {
		rounds := 5 + t.Draw(30)
		c.SetPlan("registration_churn", rounds)
		tasks = append(tasks, s.Go("churn", func() {
			for i := 0; i < rounds; i++ {
				cl.HTTP.RegisterNotificationHandler("notifications/churn", func(n *mcp.JSONRPCNotification) error { return nil })
				s.Yield("churn#registered")
				cl.HTTP.UnregisterNotificationHandler("notifications/churn")
				for j := c.T.Draw(4); j > 0; j-- {
					s.Yield("churn#idle")
				}
			}
		}))
	}
	for _, a := range s.WaitTasks(20*time.Minute, tasks...) {
		s.Violate("C10|stuck|"+mode, "%s did not return", a.Name)
	}
	s.Settle(10 * time.Millisecond)

	sseMode := mode == "post-sse" || mode == "stateless"
	for _, cc := range calls {
		if cc.err != nil {
			s.Violate(fmt.Sprintf("C10|call-failed|%s|%s", mode, errClass(cc.err)), "call %s failed: %v", cc.nonce, cc.err)
			continue
		}
		if cc.got != "r:"+cc.nonce {
			s.Violate("C10|wrong-result|"+mode, "call %s returned %q", cc.nonce, short(cc.got))
		}
		var want []emitted
		if sseMode {
			for _, e := range emittedBy[cc.nonce] {
				if registered[e.method] {
					want = append(want, e)
				}
			}
		}
		have := received[cc.nonce]
		if len(have) != len(want) {
			s.Violate(fmt.Sprintf("C10|count|%s|handlers=%s", mode, handlers), "call %s: %d notifications emitted for registered handlers, %d delivered", cc.nonce, len(want), len(have))
			continue
		}
		for i := range want {
			if have[i].late {
				s.Violate("C10|late|"+mode, "call %s: notification %d reached its handler after CallTool had returned", cc.nonce, i)
			}
			if have[i].method != want[i].method || !reflect.DeepEqual(normJSON(have[i].params), normJSON(want[i].params)) {
				s.Violate("C10|order-or-params|"+mode, "call %s: notification %d: got %s %s, want %s %s", cc.nonce, i,
					have[i].method, short(jsonOf(have[i].params)), want[i].method, short(jsonOf(want[i].params)))
			}
			wm, hm := want[i].meta, have[i].meta
			if len(wm) == 0 && len(hm) == 0 {
				continue
			}
			if !reflect.DeepEqual(normJSON(hm), normJSON(wm)) {
				s.Violate("C10|meta|"+mode, "call %s: notification %d: _meta got %s want %s", cc.nonce, i, jsonOf(hm), jsonOf(wm))
			}
		}
		if overlapped[cc.nonce] {
			s.Probe("c10.handlers_overlapped") // not demanded by the statement: order is judged at handler entry
		}
		if len(want) > 0 {
			s.Probe("c10.calls_with_notifications")
		}
		if len(want) > 64 {
			s.Probe("c10.bursts_over_64")
		}
	}
	// raw id: lines of one SSE stream are pairwise distinct
	for _, conn := range s.Net.Conns() {
		if conn.Method != "POST" || conn.RespHeader == nil || !strings.Contains(conn.RespHeader.Get("Content-Type"), "event-stream") {
			continue
		}
		_, events, _ := sseFramesOf(conn)
		seen := map[string]int{}
		for _, ev := range events {
			if ev.HasID {
				seen[ev.ID]++
			}
		}
		for id, n := range seen {
			if n > 1 {
				s.Violate("C10|duplicate-event-id|"+mode, "SSE stream c%d carries event id %q %d times (%d events)", conn.ID, id, n, len(events))
				break
			}
		}
		if len(events) > 1 {
			s.Probe("c10.streams_with_several_events")
		}
	}
	cl.API.Close()
}
