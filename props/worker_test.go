package props

import (
	"encoding/json"
	"fmt"
	"os"
	"runtime"
	"sort"
	"strconv"
	"strings"
	"testing"
	"time"

	"verif/sim"
)

// The worker is driven through environment variables by /verif/check:
//
//	VERIF_MODE    search | replay
//	VERIF_PROP    property id
//	VERIF_SEED    base seed
//	VERIF_FROM, VERIF_TO   run indices [from,to)
//	VERIF_TIER    quick | thorough
//	VERIF_OUT     result file (JSON)
//	VERIF_REPLAY  replay file (replay mode)
//	VERIF_SHRINK  max executions spent minimising one violation
//	VERIF_WALL    wall-clock budget in seconds for this worker (0 = none)

type violationOut struct {
	Sig      string         `json:"sig"`
	Msg      string         `json:"msg"`
	Seed     uint64         `json:"seed"`
	Run      uint64         `json:"run"`
	Step     int            `json:"step"`
	Tape     []uint32       `json:"tape"`
	OrigLen  int            `json:"orig_tape_len"`
	ShrinkEx int            `json:"shrink_executions"`
	Stable   string         `json:"stability"`
	Digest   string         `json:"digest"`
	Plan     interface{}    `json:"plan,omitempty"`
	Events   []sim.Event    `json:"events,omitempty"`
	Notes    []string       `json:"notes,omitempty"`
	Count    int            `json:"count"`
	Fault    *sim.FaultSpec `json:"fault_at,omitempty"`
}

type workerOut struct {
	Prop       string                   `json:"prop"`
	Seed       uint64                   `json:"seed"`
	From       uint64                   `json:"from"`
	Next       uint64                   `json:"next"`
	To         uint64                   `json:"to"`
	Runs       int                      `json:"runs"`
	Steps      int64                    `json:"steps"`
	SimTimeUs  int64                    `json:"sim_time_us"`
	Digests    []string                 `json:"digests"`
	Nontrivial []string                 `json:"nontrivial_digests"`
	Faults     map[string]int           `json:"faults"`
	Probes     map[string]int           `json:"probes"`
	Capped     map[string]int           `json:"capped"`
	LibEvents  map[string]int           `json:"lib_events"`
	Violations []*violationOut          `json:"violations"`
	Samples    []map[string]interface{} `json:"samples"`
	WallS      float64                  `json:"wall_s"`
	Overruns   int                      `json:"tape_overruns"`
	HarnessErr []string                 `json:"harness_errors"`
	RunDigests []string                 `json:"run_digests,omitempty"`
}

func envU(name string, def uint64) uint64 {
	if v := os.Getenv(name); v != "" {
		n, err := strconv.ParseUint(v, 10, 64)
		if err == nil {
			return n
		}
	}
	return def
}

func runOnce(t *testing.T, sc *Scenario, tape *sim.Tape, tier string, keep bool) (*sim.Result, *Ctx) {
	return runOnceF(t, sc, tape, tier, keep, nil, false)
}

// curRun is the run index handed to scenarios (search: the index; replay: from the replay file).
var curRun uint64

// race is the race detector's log of this process (race-mode builds only).
var race *raceLog

func initRaceLog() {
	if p := os.Getenv("VERIF_RACE_LOG"); p != "" && race == nil {
		race = &raceLog{path: fmt.Sprintf("%s.%d", p, os.Getpid())}
	}
}

func runOnceF(t *testing.T, sc *Scenario, tape *sim.Tape, tier string, keep bool, fault *sim.FaultSpec, keepIO bool) (*sim.Result, *Ctx) {
	opts := sc.Opts
	opts.KeepTrace = keep
	opts.FaultAt = fault
	opts.KeepIO = keepIO
	var ctx *Ctx
	var res *sim.Result
	// Execute runs on a goroutine of its own: in a race-mode binary the testing package answers a
	// detector report with t.FailNow(), i.e. runtime.Goexit() of whoever called synctest.Test.
	done := make(chan struct{})
	go func() {
		defer close(done)
		res = sim.Execute(t, tape, opts, func(s *sim.Sim) {
			ctx = &Ctx{S: s, T: tape, Tier: tier, Run: curRun}
			sc.Run(ctx)
		})
	}()
	<-done
	if res == nil {
		res = sim.LastResult()
	}
	if race != nil {
		lib, harness := parseRaces(race.read())
		res.Probes["race.harness_reports_ignored"] += harness
		res.Probes["race.library_reports"] += len(lib)
		if sc.Prop == "C20" {
			res.Violations = nil // the sub-workloads' functional oracles belong to their own properties
		}
		for _, v := range lib {
			v.Step = res.Steps
			dup := false
			for _, o := range res.Violations {
				if o.Sig == v.Sig {
					dup = true
				}
			}
			if !dup {
				res.Violations = append(res.Violations, v)
			}
		}
	} else if sc.Prop == "C20" {
		res.Violations = nil
	}
	if sc.Post != nil && ctx != nil {
		for _, v := range sc.Post(ctx, res) {
			dup := false
			for _, o := range res.Violations {
				if o.Sig == v.Sig {
					dup = true
				}
			}
			if !dup {
				res.Violations = append(res.Violations, v)
			}
		}
	}
	// a panic in a goroutine of the library (or in the caller's goroutine inside a library call) ends
	// the user's process: whatever the property, the run cannot count as "held"
	if sc.Prop != "C20" {
		hasPanicSig := false
		for _, v := range res.Violations {
			if strings.Contains(v.Sig, "panic") {
				hasPanicSig = true
			}
		}
		if !hasPanicSig {
			for _, e := range res.LibEvents {
				if strings.HasPrefix(e, "panic in ") && !strings.Contains(e, "handler panic") {
					where := e
					if i := strings.Index(e, " ["); i > 0 {
						where = e[:i]
					}
					res.Violations = append(res.Violations, sim.Violation{Sig: sc.Prop + "|panic|" + strings.ReplaceAll(where, " ", "-"),
						Msg: e + "\n" + strings.Join(res.Notes, "\n"), Step: res.Steps})
					break
				}
			}
		}
	}
	if ctx != nil {
		res.Plan = ctx.Plan
	}
	return res, ctx
}

func hasSig(res *sim.Result, sig string) *sim.Violation {
	for i := range res.Violations {
		if res.Violations[i].Sig == sig {
			return &res.Violations[i]
		}
	}
	return nil
}

// shrink minimises a failing tape while the same signature persists.
func shrink(t *testing.T, sc *Scenario, tier string, tape []uint32, sig string, budget int, fault *sim.FaultSpec) ([]uint32, int) {
	execs := 0
	memLimit := (envU("VERIF_MEM_MB", 1500) + 1500) << 20
	try := func(cand []uint32) ([]uint32, bool) {
		if execs >= budget {
			return nil, false
		}
		// every execution leaves its abandoned goroutines (and what they reference) behind: stop
		// minimising before the process outgrows the machine - the tape found so far is kept
		if execs%8 == 7 {
			var ms runtime.MemStats
			runtime.ReadMemStats(&ms)
			if ms.HeapAlloc > memLimit {
				budget = execs
				return nil, false
			}
		}
		execs++
		res, _ := runOnceF(t, sc, sim.ReplayTape(cand), tier, false, fault, false)
		if hasSig(res, sig) != nil {
			return res.Tape, true
		}
		return nil, false
	}
	cur := append([]uint32(nil), tape...)
	// normalise: strip trailing zeros (exhausted tape reads as zeros)
	trim := func(a []uint32) []uint32 {
		for len(a) > 0 && a[len(a)-1] == 0 {
			a = a[:len(a)-1]
		}
		return a
	}
	cur = trim(cur)
	improved := true
	for improved && execs < budget {
		improved = false
		// 1. truncate the tail (binary search on the length; an exhausted tape reads as zeros)
		lo, hi := 0, len(cur)
		for lo < hi && execs < budget {
			mid := (lo + hi) / 2
			if _, ok := try(cur[:mid]); ok {
				hi = mid
			} else {
				lo = mid + 1
			}
		}
		if hi < len(cur) {
			cur = trim(cur[:hi])
			improved = true
		}
		// 2. delete blocks
		for bs := 32; bs >= 1 && execs < budget; bs /= 2 {
			for i := len(cur) - bs; i >= 0 && execs < budget; i -= bs {
				cand := append(append([]uint32(nil), cur[:i]...), cur[i+bs:]...)
				if got, ok := try(cand); ok && len(trim(got)) < len(cur) {
					cur = trim(got)
					improved = true
					if i > len(cur) {
						i = len(cur)
					}
				}
			}
		}
		// 3. zero blocks, then reduce single values
		for bs := 16; bs >= 1 && execs < budget; bs /= 2 {
			for i := 0; i+bs <= len(cur) && execs < budget; i += bs {
				allZero := true
				for _, v := range cur[i : i+bs] {
					if v != 0 {
						allZero = false
					}
				}
				if allZero {
					continue
				}
				cand := append([]uint32(nil), cur...)
				for j := i; j < i+bs; j++ {
					cand[j] = 0
				}
				if got, ok := try(cand); ok {
					g := trim(got)
					if len(g) <= len(cur) {
						cur = g
						improved = true
					}
				}
			}
		}
		for i := 0; i < len(cur) && execs < budget; i++ {
			if cur[i] <= 1 {
				continue
			}
			for _, nv := range []uint32{cur[i] / 2, cur[i] - 1} {
				cand := append([]uint32(nil), cur...)
				cand[i] = nv
				if got, ok := try(cand); ok {
					g := trim(got)
					if len(g) <= len(cur) {
						cur = g
						improved = true
						break
					}
				}
			}
		}
	}
	return cur, execs
}

func TestWorker(t *testing.T) {
	mode := os.Getenv("VERIF_MODE")
	if mode == "" {
		t.Skip("VERIF_MODE not set")
	}
	initRaceLog()
	prop := os.Getenv("VERIF_PROP")
	sc := Lookup(prop)
	if sc == nil {
		fmt.Fprintf(os.Stderr, "unknown property %q (have %v)\n", prop, Props())
		os.Exit(2)
	}
	tier := os.Getenv("VERIF_TIER")
	if tier == "" {
		tier = "quick"
	}
	switch mode {
	case "search":
		workerSearch(t, sc, tier)
	case "replay":
		workerReplay(t, sc, tier)
	case "one":
		res, _ := runOnce(t, sc, sim.NewTape(envU("VERIF_SEED", 1), envU("VERIF_FROM", 0)), tier, true)
		writeJSON(os.Getenv("VERIF_OUT"), res)
	default:
		fmt.Fprintln(os.Stderr, "bad VERIF_MODE")
		os.Exit(2)
	}
	// leave directly: in a race-mode binary the testing package would turn any detector report into
	// a failed test, but reports are this worker's *data* (already parsed into the result file)
	os.Exit(0)
}

func workerSearch(t *testing.T, sc *Scenario, tier string) {
	seed := envU("VERIF_SEED", 1)
	from, to := envU("VERIF_FROM", 0), envU("VERIF_TO", 10)
	budget := int(envU("VERIF_SHRINK", 300))
	wall := time.Duration(envU("VERIF_WALL", 0)) * time.Second
	memLimit := envU("VERIF_MEM_MB", 1500) << 20
	start := time.Now()
	out := &workerOut{Prop: sc.Prop, Seed: seed, From: from, To: to, Next: to,
		Faults: map[string]int{}, Probes: map[string]int{}, Capped: map[string]int{}, LibEvents: map[string]int{},
		Violations: []*violationOut{}, Samples: []map[string]interface{}{}, HarnessErr: []string{}}
	digests := map[uint64]bool{}
	nontriv := map[uint64]bool{}
	bySig := map[string]*violationOut{}
	account := func(run uint64, res *sim.Result, keep bool, fault *sim.FaultSpec) {
		out.Runs++
		out.Steps += int64(res.Steps)
		out.SimTimeUs += int64(res.SimTime / time.Microsecond)
		digests[res.Digest] = true
		if os.Getenv("VERIF_RUN_DIGESTS") != "" {
			out.RunDigests = append(out.RunDigests, fmt.Sprintf("%016x:%d", res.Digest, res.Steps))
		}
		if d := os.Getenv("VERIF_DUMP_DIR"); d != "" {
			// debugging aid of the determinism self-test: the full schedule of every run
			var b strings.Builder
			for _, e := range res.Events {
				fmt.Fprintf(&b, "%d %d %s | %s %v\n", e.Step, e.At, e.Task, e.Op, e.Dec)
			}
			os.WriteFile(fmt.Sprintf("%s/run%d.txt", d, run), []byte(b.String()), 0o644)
		}
		nFaults := 0
		for k, v := range res.Faults {
			out.Faults[k] += v
			nFaults += v
		}
		for k, v := range res.Probes {
			out.Probes[k] += v
		}
		for _, e := range res.LibEvents {
			out.LibEvents[classifyLibEvent(e)]++
		}
		if res.Capped != "" {
			out.Capped[res.Capped]++
			if res.Capped == "harness-panic" {
				out.HarnessErr = append(out.HarnessErr, fmt.Sprintf("seed=%d run=%d: %v", seed, run, res.Notes))
			}
		}
		if res.Switches > 0 || nFaults > 0 {
			nontriv[res.Digest] = true
		}
		if keep {
			ev := res.Events
			if len(ev) > 40 {
				ev = ev[:40]
			}
			out.Samples = append(out.Samples, map[string]interface{}{
				"seed": seed, "run": run, "plan": res.Plan, "steps": res.Steps, "sim_time_ms": res.SimTime.Milliseconds(),
				"first_events": ev, "violations": len(res.Violations), "fault_at": fault,
			})
		}
		for _, v := range res.Violations {
			if o := bySig[v.Sig]; o != nil {
				o.Count++
				continue
			}
			vo := &violationOut{Sig: v.Sig, Msg: v.Msg, Seed: seed, Run: run, Step: v.Step, OrigLen: len(res.Tape), Count: 1, Fault: fault}
			bySig[v.Sig] = vo
			out.Violations = append(out.Violations, vo)
			min, ex := res.Tape, 0
			if strings.HasPrefix(v.Sig, "C20|race|") {
				// the detector reports one stack pair once per process: no in-process minimisation;
				// the replay file carries the full tape and is replayed in a fresh process
				vo.Tape, vo.Stable, vo.Digest, vo.Plan = res.Tape, "n/a (race report)", fmt.Sprintf("%016x", res.Digest), res.Plan
				continue
			}
			min, ex = shrink(t, sc, tier, res.Tape, v.Sig, budget, fault)
			vo.ShrinkEx = ex
			// final: replay the minimised tape three times, keep the trace
			okN := 0
			var last *sim.Result
			for i := 0; i < 3; i++ {
				r2, _ := runOnceF(t, sc, sim.ReplayTape(min), tier, true, fault, false)
				if hasSig(r2, v.Sig) != nil {
					okN++
					if last == nil || r2.Digest == last.Digest {
						last = r2
					}
				}
			}
			if last == nil {
				// minimisation lost it (should not happen): fall back to the original tape
				min = res.Tape
				last, _ = runOnceF(t, sc, sim.ReplayTape(min), tier, true, fault, false)
			}
			vo.Tape = min
			vo.Stable = fmt.Sprintf("%d/3", okN)
			vo.Digest = fmt.Sprintf("%016x", last.Digest)
			vo.Plan = last.Plan
			vo.Notes = last.Notes
			if vv := hasSig(last, v.Sig); vv != nil {
				vo.Msg = vv.Msg
				vo.Step = vv.Step
			}
			ev := last.Events
			if len(ev) > 400 {
				ev = ev[len(ev)-400:]
			}
			vo.Events = ev
		}
		out.Overruns += res.Overrun
	}
	for run := from; run < to; run++ {
		sim.WatchdogInfo.Store(fmt.Sprintf("prop=%s seed=%d run=%d", sc.Prop, seed, run))
		tape := sim.NewTape(seed, run)
		curRun = run
		keep := len(out.Samples) < 2 || os.Getenv("VERIF_DUMP_DIR") != ""
		if sc.Enum == nil {
			res, _ := runOnce(t, sc, tape, tier, keep)
			account(run, res, keep, nil)
		} else {
			// fault enumeration: pilot, then one run per (I/O point, fault kind)
			pilot, _ := runOnceF(t, sc, tape, tier, keep, nil, true)
			account(run, pilot, keep, nil)
			type pair struct {
				idx  int
				kind string
			}
			var pairs []pair
			for i, site := range pilot.IOPoints {
				for _, k := range sc.Enum.Kinds(site) {
					pairs = append(pairs, pair{i, k})
				}
			}
			out.Probes["enum.io_points"] += len(pilot.IOPoints)
			out.Probes["enum.pairs_total"] += len(pairs)
			max := sc.Enum.MaxPerPilot[tier]
			stride := 1
			if max > 0 && len(pairs) > max {
				stride = (len(pairs) + max - 1) / max
			}
			for j := int(run) % stride; j < len(pairs); j += stride {
				p := pairs[j]
				f := &sim.FaultSpec{Index: p.idx, Kind: p.kind}
				sim.WatchdogInfo.Store(fmt.Sprintf("prop=%s seed=%d run=%d fault=%d/%s", sc.Prop, seed, run, p.idx, p.kind))
				res, _ := runOnceF(t, sc, sim.ReplayTape(pilot.Tape), tier, false, f, false)
				account(run, res, false, f)
				out.Probes["enum.pairs_run"]++
				if !res.FaultFired {
					out.Probes["enum.fault_not_reached"]++
				}
			}
		}
		if wall > 0 && time.Since(start) > wall {
			out.Next = run + 1
			break
		}
		if run%8 == 7 {
			var ms runtime.MemStats
			runtime.ReadMemStats(&ms)
			if ms.HeapAlloc > memLimit {
				out.Next = run + 1
				break
			}
		}
	}
	for d := range digests {
		out.Digests = append(out.Digests, fmt.Sprintf("%016x", d))
	}
	for d := range nontriv {
		out.Nontrivial = append(out.Nontrivial, fmt.Sprintf("%016x", d))
	}
	sort.Strings(out.Digests)
	sort.Strings(out.Nontrivial)
	out.WallS = time.Since(start).Seconds()
	writeJSON(os.Getenv("VERIF_OUT"), out)
}

func classifyLibEvent(e string) string {
	if len(e) > 60 {
		e = e[:60]
	}
	return e
}

type replayFile struct {
	Property string         `json:"property"`
	Sig      string         `json:"signature"`
	Tier     string         `json:"tier"`
	Tape     []uint32       `json:"tape"`
	Digest   string         `json:"digest"`
	Msg      string         `json:"message"`
	Plan     interface{}    `json:"plan"`
	Fault    *sim.FaultSpec `json:"fault_at,omitempty"`
	Run      uint64         `json:"run"`
}

func workerReplay(t *testing.T, sc *Scenario, tier string) {
	b, err := os.ReadFile(os.Getenv("VERIF_REPLAY"))
	if err != nil {
		fmt.Fprintln(os.Stderr, err)
		os.Exit(2)
	}
	var rf replayFile
	if err := json.Unmarshal(b, &rf); err != nil {
		fmt.Fprintln(os.Stderr, err)
		os.Exit(2)
	}
	if rf.Tier != "" {
		tier = rf.Tier
	}
	curRun = rf.Run
	res, _ := runOnceF(t, sc, sim.ReplayTape(rf.Tape), tier, true, rf.Fault, false)
	out := map[string]interface{}{
		"property": sc.Prop, "signature": rf.Sig, "reproduced": hasSig(res, rf.Sig) != nil,
		"digest": fmt.Sprintf("%016x", res.Digest), "digest_expected": rf.Digest,
		"violations": res.Violations, "events": res.Events, "notes": res.Notes, "plan": res.Plan,
		"steps": res.Steps, "capped": res.Capped, "lib_events": res.LibEvents,
	}
	writeJSON(os.Getenv("VERIF_OUT"), out)
}

func writeJSON(path string, v interface{}) {
	b, err := json.MarshalIndent(v, "", " ")
	if err != nil {
		fmt.Fprintln(os.Stderr, "marshal:", err)
		os.Exit(2)
	}
	if path == "" {
		os.Stdout.Write(b)
		return
	}
	if err := os.WriteFile(path, b, 0o644); err != nil {
		fmt.Fprintln(os.Stderr, err)
		os.Exit(2)
	}
}
