package props

import (
	"context"
	"errors"
	"fmt"
	"net/http"
	"os/exec"
	"sync"
	"time"

	mcp "trpc.group/trpc-go/trpc-mcp-go"
	"verif/sim"
)

// Server modes of a run.
var allModes = []string{"json", "post-sse", "stateless", "stateless-json", "nosession", "legacy-sse", "stdio"}
var httpModes = []string{"json", "post-sse", "stateless", "stateless-json", "nosession", "legacy-sse"}
var streamableModes = []string{"json", "post-sse", "stateless", "stateless-json", "nosession"}

// World is one server plus the means to connect clients to it.
type World struct {
	C      *Ctx
	Mode   string
	Host   string
	Srv    *mcp.Server
	SSE    *mcp.SSEServer
	Stdio  *mcp.StdioServer
	Reg    registrar
	Count  *Counter
	stdios []*stdioLink
	procMu sync.Mutex
	nextCl int
}

// newWorld builds a server of the given mode, registered on the simulated network as host.
func newWorld(c *Ctx, mode, host string, extra ...mcp.ServerOption) *World {
	return newWorldOpts(c, mode, host, extra, nil)
}

// newWorldOpts is newWorld with options for both HTTP server kinds.
func newWorldOpts(c *Ctx, mode, host string, extra []mcp.ServerOption, sseExtra []mcp.SSEOption) *World {
	w := &World{C: c, Mode: mode, Host: host, Count: newCounter()}
	switch mode {
	case "json", "post-sse", "stateless", "stateless-json", "nosession":
		opts := []mcp.ServerOption{mcp.WithServerLogger(nopLogger{}), mcp.WithServerPath("/mcp")}
		switch mode {
		case "json":
			opts = append(opts, mcp.WithPostSSEEnabled(false))
		case "stateless":
			opts = append(opts, mcp.WithStatelessMode(true))
		case "stateless-json":
			opts = append(opts, mcp.WithStatelessMode(true), mcp.WithPostSSEEnabled(false))
		case "nosession":
			opts = append(opts, mcp.WithoutSession())
		}
		opts = append(opts, extra...)
		w.Srv = mcp.NewServer("verif-server", "1.2.3", opts...)
		w.Reg = regOf(w.Srv)
		c.S.Net.Serve(host, w.Srv.Handler())
	case "legacy-sse":
		so := append([]mcp.SSEOption{mcp.WithSSEServerLogger(nopLogger{}), mcp.WithBasePath("/mcp")}, sseExtra...)
		w.SSE = mcp.NewSSEServer("verif-server", "1.2.3", so...)
		w.Reg = regOf(w.SSE)
		c.S.Net.Serve(host, w.SSE)
	case "stdio":
		w.Stdio = mcp.NewStdioServer("verif-server", "1.2.3", mcp.WithStdioServerLogger(nopLogger{}))
		w.Reg = regOf(w.Stdio)
	default:
		panic("mode " + mode)
	}
	return w
}

// Client is a connected library client of any kind.
type Client struct {
	Name  string
	Kind  string // streamable | sse | stdio
	API   caller
	HTTP  *mcp.Client
	Stdio *mcp.StdioClient
	Link  *stdioLink
}

// newClient creates (but does not initialize) a library client for the world's server.
func (w *World) newClient(opts ...mcp.ClientOption) *Client {
	w.nextCl++
	name := fmt.Sprintf("%s.cl%d", w.Host, w.nextCl)
	switch w.Mode {
	case "legacy-sse":
		o := append([]mcp.ClientOption{mcp.WithClientLogger(nopLogger{})}, opts...)
		cl, err := mcp.NewSSEClient("http://"+w.Host+"/mcp/sse", clientInfo, o...)
		if err != nil {
			panic(err)
		}
		return &Client{Name: name, Kind: "sse", API: cl, HTTP: cl}
	case "stdio":
		return w.newStdioClient(name)
	default:
		o := append([]mcp.ClientOption{mcp.WithClientLogger(nopLogger{})}, opts...)
		cl, err := mcp.NewClient("http://"+w.Host+"/mcp", clientInfo, o...)
		if err != nil {
			panic(err)
		}
		return &Client{Name: name, Kind: "streamable", API: cl, HTTP: cl}
	}
}

// initClient runs the handshake with a generous simulated deadline.
func initClient(c *Ctx, cl *Client) error {
	ctx, cancel := context.WithTimeout(context.Background(), 5*time.Minute)
	defer cancel()
	_, err := cl.API.Initialize(ctx, &mcp.InitializeRequest{})
	return err
}

var _ = http.MethodGet
var _ sim.Options

// ---- stdio ---------------------------------------------------------------------------------------

// stdioLink is one simulated child process: a StdioServer instance behind three pipes.
type stdioLink struct {
	Name      string
	Srv       *mcp.StdioServer
	ToSrv     *sim.Pipe // client stdin -> server
	FromSrv   *sim.Pipe // server stdout -> client
	Err       *sim.Pipe
	Exited    chan struct{}
	exited    bool
	ExitErr   error // what (*exec.Cmd).Wait reports: nil for a clean exit
	cancel    context.CancelFunc
	Task      *sim.Task
	ListenErr error
}

// stdioSetups are replayed on every new server instance of a stdio world (one process per client).
type stdioSetup func(srv *mcp.StdioServer)

// The table of simulated processes is shared by workload tasks (one creates a process while another
// registers something on all of them).  The hand-over goes through a real mutex so that the race
// detector sees the happens-before edge an application would also have when it passes a server
// from the goroutine that built it to another one (without it C20 reported NewStdioServer's
// initialising writes against RegisterPrompt's reads - a race of the harness, not of the library).
func (w *World) addStdioSetup(f stdioSetup) {
	w.procMu.Lock()
	w.C.S.Vars["stdioSetups:"+w.Host] = append(w.stdioSetupsOf(), f)
	links := append([]*stdioLink(nil), w.stdios...)
	w.procMu.Unlock()
	for _, l := range links {
		f(l.Srv)
	}
}

func (w *World) stdioSetupsOf() []stdioSetup {
	v, _ := w.C.S.Vars["stdioSetups:"+w.Host].([]stdioSetup)
	return v
}

// exit marks the simulated process as exited.
func (l *stdioLink) exit() {
	if !l.exited {
		l.exited = true
		close(l.Exited)
	}
}

// ExitClean makes the child leave on its own with status 0 (its main returns).
func (l *stdioLink) ExitClean() {
	l.cancel()
}

// Kill is kill -9 of the child: every pipe end of the child disappears at once.
func (l *stdioLink) Kill() {
	if !l.exited {
		l.ExitErr = errors.New("signal: killed")
	}
	l.cancel()
	l.FromSrv.KillWriter()
	l.Err.KillWriter()
	l.ToSrv.KillReader()
	l.exit()
}

func (w *World) newStdioClient(name string) *Client {
	c := w.C
	s := c.S
	link := &stdioLink{Name: name, Exited: make(chan struct{})}
	link.ToSrv = s.NewPipe(name + ".stdin")
	link.FromSrv = s.NewPipe(name + ".stdout")
	link.Err = s.NewPipe(name + ".stderr")
	srv := mcp.NewStdioServer("verif-server", "1.2.3", mcp.WithStdioServerLogger(nopLogger{}))
	link.Srv = srv
	// order matters when registrations race process creation: publish the process first, then apply
	// the setups known so far (a setup added meanwhile is applied by addStdioSetup; double application
	// of a registration is harmless)
	w.procMu.Lock()
	w.stdios = append(w.stdios, link)
	setups := append([]stdioSetup(nil), w.stdioSetupsOf()...)
	w.procMu.Unlock()
	for _, f := range setups {
		f(srv)
	}
	ctx, cancel := context.WithCancel(context.Background())
	link.cancel = cancel
	link.Task = s.Go(name+"/proc", func() {
		link.ListenErr = mcp.VerifServeStdio(ctx, srv, link.ToSrv.Reader(), link.FromSrv.Writer())
		// main returns: the process exits, its pipe ends close
		link.FromSrv.KillWriter()
		link.Err.KillWriter()
		link.ToSrv.KillReader()
		link.exit()
	})
	cl, err := mcp.NewStdioClient(mcp.StdioTransportConfig{
		ServerParams: mcp.StdioServerParameters{Command: "simulated-child"},
		Timeout:      30 * time.Second,
	}, clientInfo, mcp.WithStdioLogger(nopLogger{}))
	if err != nil {
		panic(err)
	}
	mcp.VerifAttachStdio(cl, link.ToSrv.Writer(), link.FromSrv.Reader(), link.Err.Reader(),
		func(cmd *exec.Cmd) { s.RegisterProc(cmd, link.Exited, func() error { return link.ExitErr }) },
		func(n string, f func()) { s.GoLib(name+"/"+n, f) })
	return &Client{Name: name, Kind: "stdio", API: cl, Stdio: cl, Link: link}
}

// register applies a registration to the world's server (for stdio: to every process, present and future).
func (w *World) register(f func(r registrar)) {
	if w.Mode == "stdio" {
		w.addStdioSetup(func(srv *mcp.StdioServer) { f(regOf(srv)) })
		return
	}
	f(w.Reg)
}
