package props

import (
	"context"
	"fmt"
	"sort"
	"strings"
	"time"

	"github.com/anishathalye/porcupine"
	mcp "trpc.group/trpc-go/trpc-mcp-go"
	"verif/sim"
)

// C12 — registries stay consistent while tools, prompts and resources change under load.

func init() {
	register(&Scenario{Prop: "C12", Run: runC12, Post: postC12, Opts: sim.Options{MaxSteps: 80000, MaxSimTime: 30 * time.Minute}})
}

type c12In struct {
	Reg   string // tools | prompts | resources
	Op    string // reg | unreg | list | call
	Name  string
	Ver   int
	Names []string // unreg
}

type c12Out struct {
	Err     bool           // call: not found / unreg: nothing removed
	Ver     int            // call
	List    map[string]int // list: name -> version
	Order   []string       // list (resources): order
	Unknown string         // something unparsable
}

type c12State struct {
	vers  map[string]int
	order []string
}

func (st c12State) clone() c12State {
	n := c12State{vers: map[string]int{}, order: append([]string(nil), st.order...)}
	for k, v := range st.vers {
		n.vers[k] = v
	}
	return n
}

func c12Model() porcupine.Model {
	return porcupine.Model{
		Partition: func(history []porcupine.Operation) [][]porcupine.Operation {
			by := map[string][]porcupine.Operation{}
			var keys []string
			for _, op := range history {
				r := op.Input.(c12In).Reg
				if _, ok := by[r]; !ok {
					keys = append(keys, r)
				}
				by[r] = append(by[r], op)
			}
			sort.Strings(keys)
			var out [][]porcupine.Operation
			for _, k := range keys {
				out = append(out, by[k])
			}
			return out
		},
		Init: func() interface{} { return c12State{vers: map[string]int{}} },
		Step: func(state, input, output interface{}) (bool, interface{}) {
			st := state.(c12State)
			in := input.(c12In)
			out := output.(c12Out)
			switch in.Op {
			case "reg":
				n := st.clone()
				if _, ok := n.vers[in.Name]; !ok {
					n.order = append(n.order, in.Name)
				}
				n.vers[in.Name] = in.Ver
				return true, n
			case "unreg":
				n := st.clone()
				removed := 0
				for _, name := range in.Names {
					if _, ok := n.vers[name]; ok {
						delete(n.vers, name)
						removed++
						for i, o := range n.order {
							if o == name {
								n.order = append(n.order[:i:i], n.order[i+1:]...)
								break
							}
						}
					}
				}
				return out.Err == (removed == 0), n
			case "call":
				v, ok := st.vers[in.Name]
				if !ok {
					return out.Err, st
				}
				return !out.Err && out.Ver == v, st
			case "list":
				if len(out.List) != len(st.vers) {
					return false, st
				}
				for k, v := range st.vers {
					if ov, ok := out.List[k]; !ok || ov != v {
						return false, st
					}
				}
				if in.Reg == "resources" {
					if strings.Join(out.Order, ",") != strings.Join(st.order, ",") {
						return false, st
					}
				}
				return true, st
			}
			return false, st
		},
		Equal: func(a, b interface{}) bool {
			x, y := a.(c12State), b.(c12State)
			if len(x.vers) != len(y.vers) || strings.Join(x.order, ",") != strings.Join(y.order, ",") {
				return false
			}
			for k, v := range x.vers {
				if y.vers[k] != v {
					return false
				}
			}
			return true
		},
		DescribeOperation: func(input, output interface{}) string {
			return fmt.Sprintf("%+v -> %+v", input, output)
		},
	}
}

func verOf(s string) (int, bool) {
	var v int
	if _, err := fmt.Sscanf(s, "v%d", &v); err != nil {
		return 0, false
	}
	return v, true
}

func runC12(c *Ctx) {
	s, t := c.S, c.T
	mode := []string{"json", "post-sse", "stateless-json", "legacy-sse", "stdio"}[t.Draw(5)]
	c.SetPlan("mode", mode)
	w := newWorld(c, mode, "srv")
	s.Net.Faults = sim.NetFaults{Delay: t.Pick(0, 10)}
	names := map[string][]string{"tools": {"ta", "tb", "tc"}, "prompts": {"pa", "pb", "pc"}, "resources": {"res://a", "res://b", "res://c"}}
	var reg registrar
	var cl *Client
	cl = w.newClient()
	if mode == "stdio" {
		reg = regOf(cl.Link.Srv)
	} else {
		reg = w.Reg
	}
	// the tools registry must not be empty for some clients? no: initialize works with empty registries
	if err := initClient(c, cl); err != nil {
		s.Violate("C12|init-failed|"+mode, "Initialize failed: %v", err)
		return
	}
	nextVer := 0
	var ops []porcupine.Operation
	record := func(client int, in c12In, call int64, out c12Out) {
		ret := c.Stamp()
		c.mu.Lock()
		ops = append(ops, porcupine.Operation{ClientId: client, Input: in, Call: call, Output: out, Return: ret})
		c.mu.Unlock()
	}
	doReg := func(client int, r, name string) {
		c.mu.Lock()
		nextVer++
		v := nextVer
		c.mu.Unlock()
		in := c12In{Reg: r, Op: "reg", Name: name, Ver: v}
		call := c.Stamp()
		desc := fmt.Sprintf("v%d", v)
		switch r {
		case "tools":
			reg.RegisterTool(mcp.NewTool(name, mcp.WithDescription(desc)), func(ctx context.Context, req *mcp.CallToolRequest) (*mcp.CallToolResult, error) {
				return &mcp.CallToolResult{Content: []mcp.Content{mcp.NewTextContent(desc)}}, nil
			})
		case "prompts":
			reg.RegisterPrompt(&mcp.Prompt{Name: name, Description: desc}, func(ctx context.Context, req *mcp.GetPromptRequest) (*mcp.GetPromptResult, error) {
				return &mcp.GetPromptResult{Description: desc, Messages: []mcp.PromptMessage{{Role: mcp.RoleUser, Content: mcp.NewTextContent(desc)}}}, nil
			})
		case "resources":
			reg.RegisterResource(&mcp.Resource{Name: name, URI: name, Description: desc}, func(ctx context.Context, req *mcp.ReadResourceRequest) (mcp.ResourceContents, error) {
				return mcp.TextResourceContents{URI: name, Text: desc}, nil
			})
		}
		record(client, in, call, c12Out{})
	}
	doUnreg := func(client int, ns []string) {
		in := c12In{Reg: "tools", Op: "unreg", Names: ns}
		call := c.Stamp()
		err := reg.UnregisterTools(ns...)
		record(client, in, call, c12Out{Err: err != nil})
	}
	ctxOf := func() (context.Context, context.CancelFunc) {
		return context.WithTimeout(context.Background(), 5*time.Minute)
	}
	doCall := func(client int, r, name string) {
		in := c12In{Reg: r, Op: "call", Name: name}
		call := c.Stamp()
		ctx, cancel := ctxOf()
		defer cancel()
		var text string
		var err error
		switch r {
		case "tools":
			var res *mcp.CallToolResult
			res, err = cl.API.CallTool(ctx, callToolReq(name, nil))
			if err == nil {
				text = textOf(res)
			}
		case "prompts":
			var res *mcp.GetPromptResult
			res, err = cl.API.GetPrompt(ctx, getPromptReq(name, nil))
			if err == nil {
				text = promptText(res)
			}
		case "resources":
			var res *mcp.ReadResourceResult
			res, err = cl.API.ReadResource(ctx, readResourceReq(name, nil))
			if err == nil {
				text = resourceText(res)
			}
		}
		out := c12Out{}
		if err != nil {
			if strings.Contains(err.Error(), "not found") {
				out.Err = true
			} else {
				out.Unknown = err.Error()
				s.Violate(fmt.Sprintf("C12|call-failed|%s|%s|%s", mode, r, errClass(err)), "call of %s %q failed with something other than not-found: %v", r, name, err)
			}
		} else if v, ok := verOf(text); ok {
			out.Ver = v
		} else {
			out.Unknown = text
			s.Violate(fmt.Sprintf("C12|torn-answer|%s|%s", mode, r), "call of %s %q returned %q", r, name, short(text))
		}
		record(client, in, call, out)
	}
	doList := func(client int, r string) {
		in := c12In{Reg: r, Op: "list"}
		call := c.Stamp()
		ctx, cancel := ctxOf()
		defer cancel()
		out := c12Out{List: map[string]int{}}
		add := func(name, desc string) {
			v, ok := verOf(desc)
			if !ok {
				s.Violate(fmt.Sprintf("C12|torn-entry|%s|%s", mode, r), "list of %s has entry %q with description %q", r, name, desc)
			}
			if _, dup := out.List[name]; dup {
				s.Violate(fmt.Sprintf("C12|duplicate-entry|%s|%s", mode, r), "list of %s shows %q twice", r, name)
			}
			out.List[name] = v
			out.Order = append(out.Order, name)
		}
		var err error
		switch r {
		case "tools":
			var res *mcp.ListToolsResult
			res, err = cl.API.ListTools(ctx, &mcp.ListToolsRequest{})
			if err == nil {
				for _, x := range res.Tools {
					add(x.Name, x.Description)
				}
			}
		case "prompts":
			var res *mcp.ListPromptsResult
			res, err = cl.API.ListPrompts(ctx, &mcp.ListPromptsRequest{})
			if err == nil {
				for _, x := range res.Prompts {
					add(x.Name, x.Description)
				}
			}
		case "resources":
			var res *mcp.ListResourcesResult
			res, err = cl.API.ListResources(ctx, &mcp.ListResourcesRequest{})
			if err == nil {
				for _, x := range res.Resources {
					add(x.URI, x.Description)
				}
			}
		}
		if err != nil {
			s.Violate(fmt.Sprintf("C12|list-failed|%s|%s|%s", mode, r, errClass(err)), "list of %s failed: %v", r, err)
			return
		}
		record(client, in, call, out)
	}
	// initial registrations (sequential)
	for _, r := range []string{"tools", "prompts", "resources"} {
		for _, n := range names[r] {
			if t.Bool(50) {
				doReg(0, r, n)
			}
		}
	}
	nTasks := 2 + t.Draw(4)
	budget := 20
	var tasks []*sim.Task
	var planned [][]string
	for k := 0; k < nTasks; k++ {
		nOps := 2 + t.Draw(4)
		if nOps > budget {
			nOps = budget
		}
		budget -= nOps
		type opT struct{ r, op, name string }
		var my []opT
		var desc []string
		for i := 0; i < nOps; i++ {
			r := []string{"tools", "prompts", "resources"}[t.Draw(3)]
			o := opT{r: r, name: names[r][t.Draw(3)]}
			switch t.Draw(5) {
			case 0, 1:
				o.op = "reg"
			case 2:
				o.op = "list"
			case 3:
				o.op = "call"
			case 4:
				if r == "tools" {
					o.op = "unreg"
				} else {
					o.op = "call"
				}
			}
			my = append(my, o)
			desc = append(desc, o.op+" "+o.r+" "+o.name)
		}
		planned = append(planned, desc)
		tasks = append(tasks, s.Go(fmt.Sprintf("worker%d", k), func() {
			for _, o := range my {
				switch o.op {
				case "reg":
					doReg(k+1, o.r, o.name)
				case "unreg":
					doUnreg(k+1, []string{o.name})
				case "list":
					doList(k+1, o.r)
				case "call":
					doCall(k+1, o.r, o.name)
				}
				s.Yield("worker#next")
			}
		}))
	}
	c.SetPlan("workers", planned)
	for _, a := range s.WaitTasks(25*time.Minute, tasks...) {
		s.Violate("C12|stuck|"+mode, "%s did not finish", a.Name)
	}
	for _, e := range s.LibEvents() {
		if strings.Contains(e, "recursive read lock") {
			s.Violate("C12|rlock-recursion|"+mode, "%s", e)
		}
	}
	if lb := s.LockBlocked(); len(lb) > 0 {
		s.Violate("C12|deadlock|"+mode, "tasks blocked on registry locks at the end: %v", lb)
	}
	c.History = ops
	c.SetPlan("history_len", len(ops))
	c12NotificationHandlers(c, w, cl, mode)
	cl.API.Close()
}

// c12NotificationHandlers: the fourth registry of the statement.  Server-side handlers for a client
// notification are registered (each with a version of its own) and unregistered by one task while
// the client keeps sending that notification; afterwards the registry must be exactly what the last
// operation left: one more notification reaches the last registered version once, or nobody.
func c12NotificationHandlers(c *Ctx, w *World, cl *Client, mode string) {
	s, t := c.S, c.T
	const method = "notifications/roots/list_changed"
	var handled []int
	set := func(v int) {
		var h mcp.ServerNotificationHandler
		if v > 0 {
			h = func(ctx context.Context, n *mcp.JSONRPCNotification) error {
				c.mu.Lock()
				handled = append(handled, v)
				c.mu.Unlock()
				s.Yield("server-notification-handler")
				return nil
			}
		}
		switch {
		case w.Srv != nil:
			if h != nil {
				w.Srv.RegisterNotificationHandler(method, h)
			} else {
				w.Srv.UnregisterNotificationHandler(method)
			}
		case w.SSE != nil:
			if h != nil {
				w.SSE.RegisterNotificationHandler(method, h)
			} else {
				w.SSE.UnregisterNotificationHandler(method)
			}
		default:
			for _, l := range w.stdios {
				if h != nil {
					l.Srv.RegisterNotificationHandler(method, h)
				} else {
					l.Srv.UnregisterNotificationHandler(method)
				}
			}
		}
	}
	notify := func() error {
		ctx, cancel := context.WithTimeout(context.Background(), time.Minute)
		defer cancel()
		if cl.HTTP != nil {
			return cl.HTTP.SendRootsListChangedNotification(ctx)
		}
		return cl.Stdio.SendRootsListChangedNotification(ctx)
	}
	nChurn, nSend := 1+t.Draw(6), 1+t.Draw(5)
	last := 0
	var seq []int
	for i := 1; i <= nChurn; i++ {
		v := i
		if t.Bool(30) {
			v = 0
		}
		seq = append(seq, v)
		last = v
	}
	c.SetPlan("notification_handler_versions", seq)
	sent := 0
	churn := s.Go("handler-churn", func() {
		for _, v := range seq {
			set(v)
			s.Yield("churn#next")
		}
	})
	sender := s.Go("notifier", func() {
		for i := 0; i < nSend; i++ {
			if err := notify(); err != nil {
				s.Violate("C12|client-notification-failed|"+mode, "sending %s while server-side handlers change failed: %v", method, err)
				return
			}
			sent++
		}
	})
	for _, a := range s.WaitTasks(10*time.Minute, churn, sender) {
		s.Violate("C12|stuck|"+mode, "%s did not finish", a.Name)
		return
	}
	s.Settle(50 * time.Millisecond)
	c.mu.Lock()
	before := len(handled)
	c.mu.Unlock()
	if before > sent {
		s.Violate("C12|notification-handled-twice|"+mode, "%d notifications were sent, server-side handlers ran %d times: %v", sent, before, handled)
	}
	if err := notify(); err != nil {
		s.Violate("C12|client-notification-failed|"+mode, "sending %s failed: %v", method, err)
		return
	}
	s.Settle(50 * time.Millisecond)
	c.mu.Lock()
	after := append([]int(nil), handled[before:]...)
	c.mu.Unlock()
	switch {
	case last == 0 && len(after) != 0:
		s.Violate("C12|unregistered-notification-handler-ran|"+mode, "the handler was unregistered last, yet a notification sent afterwards was handled by version(s) %v", after)
	case last != 0 && (len(after) != 1 || after[0] != last):
		s.Violate("C12|stale-notification-handler|"+mode, "version %d was registered last (sequence %v); a notification sent afterwards was handled by %v", last, seq, after)
	}
	s.Probe("c12.notification_handlers")
}

// postC12 checks the recorded history for linearizability outside the bubble (real clock).
func postC12(c *Ctx, res *sim.Result) []sim.Violation {
	ops, _ := c.History.([]porcupine.Operation)
	if len(ops) == 0 {
		return nil
	}
	result, info := porcupine.CheckOperationsVerbose(c12Model(), ops, 20*time.Second)
	switch result {
	case porcupine.Ok:
		res.Probes["c12.linearizable"]++
	case porcupine.Unknown:
		res.Probes["c12.porcupine_unknown"]++
	case porcupine.Illegal:
		mode, _ := c.Plan["mode"].(string)
		// find the registry whose partition is illegal for the signature
		_ = info
		var lines []string
		sorted := append([]porcupine.Operation(nil), ops...)
		sort.Slice(sorted, func(i, j int) bool { return sorted[i].Call < sorted[j].Call })
		for _, op := range sorted {
			lines = append(lines, fmt.Sprintf("[%d,%d] c%d %+v -> %+v", op.Call, op.Return, op.ClientId, op.Input, op.Output))
		}
		return []sim.Violation{{Sig: "C12|not-linearizable|" + mode, Msg: "history is not linearizable against the sequential registry model:\n  " + strings.Join(lines, "\n  "), Step: res.Steps}}
	}
	return nil
}
