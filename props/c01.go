package props

import (
	"context"
	"fmt"
	"strings"
	"time"

	mcp "trpc.group/trpc-go/trpc-mcp-go"
	"verif/sim"
)

// C01 — every call gets exactly one answer, and it is its own.

func init() {
	register(&Scenario{Prop: "C01", Run: runC01, Opts: sim.Options{MaxSteps: 60000, MaxSimTime: 30 * time.Minute}})
}

type c01Op struct {
	Kind    string `json:"kind"`
	Nonce   string `json:"nonce"`
	DelayMs int    `json:"delay_ms,omitempty"`
	// Impatient > 0: the caller gives this call up (cancels its context) after that many scheduler
	// steps of a canceller task; the call may then fail, every other call is judged as usual
	Impatient    int  `json:"impatient,omitempty"`
	AfterHandler bool `json:"after_handler,omitempty"`
}

func errClass(err error) string {
	if err == nil {
		return "ok"
	}
	m := err.Error()
	switch {
	case strings.Contains(m, "context deadline exceeded"):
		return "deadline"
	case strings.Contains(m, "context canceled"):
		return "canceled"
	case strings.Contains(m, "request timeout"):
		return "timeout"
	case strings.Contains(m, "connection reset"):
		return "reset"
	case strings.Contains(m, "unexpected EOF"):
		return "unexpected-eof"
	case strings.Contains(m, "EOF"):
		return "eof"
	case strings.Contains(m, "connection refused"):
		return "refused"
	case strings.Contains(m, "closed"):
		return "closed"
	case strings.Contains(m, "(code: "):
		i := strings.Index(m, "(code: ")
		return "rpc" + strings.TrimRight(m[i+7:], ")")
	case strings.Contains(m, "status code"):
		i := strings.Index(m, "status code")
		return strings.ReplaceAll(strings.TrimSpace(m[i:min(len(m), i+16)]), " ", "-")
	}
	return "other"
}

func runC01(c *Ctx) {
	s, t := c.S, c.T
	mode := allModes[t.Draw(len(allModes))]
	faulty := t.Bool(30)
	nClients := 1 + t.Draw(3)
	maxCallers, maxOps := 3, 4
	if c.Tier == "thorough" {
		maxCallers, maxOps = 4, 8
	}
	w := newWorld(c, mode, "srv")
	w.register(func(r registrar) { registerEcho(c, r, w.Count) })
	if faulty {
		s.Net.Faults = sim.NetFaults{Delay: 10, ShortRead: 20, ResetMid: t.Pick(0, 3), CutMid: t.Pick(0, 3), ResetConn: t.Pick(0, 2)}
	} else {
		s.Net.Faults = sim.NetFaults{Delay: t.Pick(0, 10), ShortRead: t.Pick(0, 20)}
	}
	impatient := t.Bool(35)
	c.SetPlan("mode", mode)
	c.SetPlan("faulty", faulty)
	c.SetPlan("impatient_callers", impatient)

	type callRec struct {
		client string
		op     c01Op
		done   bool
		err    error
		got    string
	}
	var calls []*callRec
	var clientTasks []*sim.Task
	plan := map[string][][]c01Op{}
	for ci := 0; ci < nClients; ci++ {
		cl := w.newClient()
		// request ids are a counter: start it where the statement's range ends or formats change
		if t.Bool(35) {
			start := []int64{999990, 999999, 1 << 31, 1<<53 - 40, 123456789012}[t.Draw(5)]
			if cl.HTTP != nil {
				mcp.VerifSetNextRequestID(cl.HTTP, start)
			} else {
				mcp.VerifSetNextRequestID(cl.Stdio, start)
			}
			c.SetPlan("first_id_of_"+cl.Name, start+1)
		}
		if cl.Link != nil && faulty {
			cl.Link.FromSrv.ShortRead = 20
			cl.Link.ToSrv.ShortRead = 20
		}
		nCallers := 1 + t.Draw(maxCallers)
		var scripts [][]c01Op
		for k := 0; k < nCallers; k++ {
			var ops []c01Op
			for n := 1 + t.Draw(maxOps); n > 0; n-- {
				op := c01Op{Kind: []string{"tool", "prompt", "res"}[t.Draw(3)], Nonce: c.Nonce("n")}
				if op.Kind == "tool" {
					op.DelayMs = t.Pick(0, 0, 1, 7)
				}
				if impatient && t.Bool(25) {
					op.Impatient = 1 + t.Draw(60)
					if t.Bool(60) {
						// give up around the moment the answer travels back: wait for the handler to
						// have run, then a few more steps
						op.Impatient = 1 + t.Draw(16)
						op.AfterHandler = true
					}
				}
				ops = append(ops, op)
			}
			scripts = append(scripts, ops)
		}
		plan[cl.Name] = scripts
		clientTasks = append(clientTasks, s.Go(cl.Name, func() {
			if err := initClient(c, cl); err != nil {
				if !faulty {
					s.Violate(fmt.Sprintf("C01|init-failed|mode=%s|%s", mode, errClass(err)), "fault-free run: Initialize of %s failed: %v", cl.Name, err)
				}
				return
			}
			var callers []*sim.Task
			for k, ops := range scripts {
				callers = append(callers, s.Go(fmt.Sprintf("%s/caller%d", cl.Name, k), func() {
					for _, op := range ops {
						rec := &callRec{client: cl.Name, op: op}
						c.mu.Lock()
						calls = append(calls, rec)
						c.mu.Unlock()
						ctx, cancel := context.WithTimeout(context.Background(), 5*time.Minute)
						if op.Impatient > 0 {
							s.Go(fmt.Sprintf("%s/caller%d/giveup-%s", cl.Name, k, op.Nonce), func() {
								if op.AfterHandler {
									for i := 0; i < 4000 && w.Count.Get(op.Kind+":"+op.Nonce) == 0; i++ {
										s.Yield("giveup#handler")
										if i%50 == 49 {
											s.Sleep(time.Millisecond)
										}
									}
								}
								for i := 0; i < op.Impatient; i++ {
									s.Yield("giveup#wait")
								}
								cancel()
								s.Probe("c01.gave_up")
							})
						}
						switch op.Kind {
						case "tool":
							res, err := cl.API.CallTool(ctx, callToolReq("echo", map[string]interface{}{"nonce": op.Nonce, "delay_ms": float64(op.DelayMs)}))
							rec.err = err
							if err == nil {
								rec.got = textOf(res)
							}
						case "prompt":
							res, err := cl.API.GetPrompt(ctx, getPromptReq("echo", map[string]string{"nonce": op.Nonce}))
							rec.err = err
							if err == nil {
								rec.got = promptText(res)
							}
						case "res":
							res, err := cl.API.ReadResource(ctx, readResourceReq("res://echo", map[string]interface{}{"nonce": op.Nonce}))
							rec.err = err
							if err == nil {
								rec.got = resourceText(res)
							}
						}
						cancel()
						rec.done = true
						s.Yield("caller#next")
					}
				}))
			}
			s.WaitTasks(20*time.Minute, callers...)
		}))
	}
	c.SetPlan("clients", plan)
	// partition and heal: the network stops delivering for a while (shorter than every deadline in
	// play) and then delivers again; this is not a fault that may cost a call - once it is over
	// every call completes as if nothing had happened
	if !faulty && t.Bool(20) && mode != "stdio" {
		wait, d := t.Draw(150), []time.Duration{10 * time.Millisecond, time.Second, 20 * time.Second}[t.Draw(3)]
		c.SetPlan("partition", d.String())
		clientTasks = append(clientTasks, s.Go("partition", func() {
			for i := 0; i < wait; i++ {
				s.Yield("partition#wait")
			}
			s.Net.Stall(d)
			s.Fault("net.partition")
			s.Sleep(d)
			s.Net.Unstall()
			s.Fault("net.heal")
		}))
	}
	// raw reference peers with chosen ids: strings, integers up to 2^53, equal-looking pairs in flight at once
	type rawCall struct {
		id    string // raw JSON of the id
		nonce string
	}
	var rawCalls []rawCall
	var rawPeers []*rawPeer
	if t.Bool(45) {
		idPool := []string{`""`, `"1"`, `1`, `0`, `-1`, `2147483648`, `9007199254740991`, `9007199254740992`, `"ключ"`, `"` + strings.Repeat("i", 1024) + `"`, `"1.0"`, `"null"`, `"a b"`}
		peer, err := newRawPeer(c, w, "rawpeer", false)
		if err != nil {
			if !faulty {
				s.Violate("C01|raw-handshake|mode="+mode, "raw peer handshake failed: %v", err)
			}
		} else {
			rawPeers = append(rawPeers, peer)
			n := 2 + t.Draw(4)
			used := map[string]bool{}
			for i := 0; i < n; i++ {
				id := idPool[t.Draw(len(idPool))]
				if used[id] {
					continue
				}
				used[id] = true
				rawCalls = append(rawCalls, rawCall{id: id, nonce: c.Nonce("raw")})
			}
			var descr []string
			for _, rc := range rawCalls {
				descr = append(descr, short(rc.id))
			}
			c.SetPlan("raw_ids", descr)
			for _, rc := range rawCalls {
				body := []byte(`{"jsonrpc":"2.0","id":` + rc.id + `,"method":"tools/call","params":{"name":"echo","arguments":{"nonce":"` + rc.nonce + `","delay_ms":` + fmt.Sprint(t.Pick(0, 0, 2)) + `}}}`)
				clientTasks = append(clientTasks, s.Go("rawpeer/send"+rc.nonce, func() { peer.post(body) }))
			}
		}
	}
	alive := s.WaitTasks(25*time.Minute, clientTasks...)
	if len(rawPeers) > 0 && !faulty {
		s.Settle(20 * time.Millisecond)
		frames := rawPeers[0].allFrames()
		for _, rc := range rawCalls {
			n := 0
			for _, f := range frames {
				fi, _ := parseFrame(f)
				if fi.ID == rc.id && (fi.Kind == "response" || fi.Kind == "error") {
					n++
					if !strings.Contains(string(f), "r:"+rc.nonce) {
						s.Violate("C01|raw-wrong-answer|mode="+mode, "the response with id %s carries %q, the request with that id had nonce %s", short(rc.id), short(string(f)), rc.nonce)
					}
				}
			}
			if n != 1 {
				var ids []string
				for _, f := range frames {
					fi, _ := parseFrame(f)
					ids = append(ids, short(fi.ID))
				}
				s.Violate(fmt.Sprintf("C01|raw-id-not-echoed|mode=%s|n=%d", mode, n), "request id %s (JSON text) got %d responses with exactly that id; ids on the wire: %v", short(rc.id), n, ids)
			}
			if got := w.Count.Get("tool:" + rc.nonce); got != 1 {
				s.Violate("C01|raw-handler-count|mode="+mode, "handler ran %d times for the raw request with id %s", got, short(rc.id))
			}
		}
		s.Probe("c01.raw_peer_runs")
	}

	// ---- oracle ----
	counts := w.Count.Snapshot()
	if w.Mode == "stdio" {
		// counters of all processes share w.Count
	}
	for _, a := range alive {
		s.Violate(fmt.Sprintf("C01|no-outcome|mode=%s", mode), "task %s has calls without any outcome after 25 simulated minutes", a.Name)
	}
	for _, r := range calls {
		key := r.op.Kind + ":" + r.op.Nonce
		n := counts[key]
		if n > 1 {
			s.Violate(fmt.Sprintf("C01|handler-ran-twice|mode=%s|kind=%s", mode, r.op.Kind), "handler ran %d times for nonce %s (no retry configured)", n, r.op.Nonce)
		}
		if !r.done {
			continue
		}
		s.Probe("c01.outcome." + errClass(r.err))
		if r.err == nil {
			if r.got != "r:"+r.op.Nonce {
				s.Violate(fmt.Sprintf("C01|wrong-answer|mode=%s|kind=%s", mode, r.op.Kind), "%s call with nonce %s returned %q", r.op.Kind, r.op.Nonce, short(r.got))
			}
			if n != 1 {
				s.Violate(fmt.Sprintf("C01|result-without-handler|mode=%s|kind=%s", mode, r.op.Kind), "call nonce %s returned a result but the handler ran %d times", r.op.Nonce, n)
			}
		} else if r.op.Impatient > 0 && errClass(r.err) == "canceled" {
			s.Probe("c01.gave_up_and_failed")
		} else if !faulty {
			s.Violate(fmt.Sprintf("C01|call-failed|mode=%s|kind=%s|%s", mode, r.op.Kind, errClass(r.err)),
				"fault-free run: %s call nonce %s on %s failed: %v (handler ran %d times)", r.op.Kind, r.op.Nonce, r.client, r.err, n)
		}
	}
	s.Probe("c01.mode." + mode)
	s.Probe(fmt.Sprintf("c01.calls"))
}
