package props

import (
	"context"
	"fmt"
	"strings"
	"time"

	"verif/sim"
)

// C11 — a newer listening stream owns the session; an old one's exit never evicts it.

func init() {
	register(&Scenario{Prop: "C11", Run: runC11, Opts: sim.Options{MaxSteps: 60000, MaxSimTime: 30 * time.Minute}})
}

// rawSession performs the handshake of a raw peer against a Streamable server and returns the session id.
func rawSession(c *Ctx, host string) (string, error) {
	ctx := context.Background()
	r := rawDo(c, ctx, "POST", "http://"+host+"/mcp", jsonOnlyHdr, rpcReq(1, "initialize", initParams("2025-03-26")))
	if r.Err != nil {
		return "", r.Err
	}
	sid := r.Header.Get("Mcp-Session-Id")
	if r.Status != 200 || sid == "" {
		return "", fmt.Errorf("initialize: status %d, session id %q, body %s", r.Status, sid, short(string(r.Body)))
	}
	r2 := rawDo(c, ctx, "POST", "http://"+host+"/mcp", withSession(jsonOnlyHdr, sid), rpcNotif("notifications/initialized", nil))
	if r2.Err != nil || r2.Status != 202 {
		return "", fmt.Errorf("initialized notification: status %d err %v", r2.Status, r2.Err)
	}
	return sid, nil
}

func runC11(c *Ctx) {
	s, t := c.S, c.T
	w := newWorld(c, "post-sse", "srv")
	s.Net.Faults = sim.NetFaults{ShortRead: t.Pick(0, 20), Delay: t.Pick(0, 0, 10)}
	sid, err := rawSession(c, "srv")
	if err != nil {
		s.Violate("C11|handshake-failed", "raw handshake failed: %v", err)
		return
	}
	type stream struct {
		n      int
		rs     *RawStream
		closed  bool // closed by the peer
		stalled bool // the peer stopped reading it
		resumed bool // opened with Last-Event-ID: its handler writes a resumption notice of its own
	}
	var streams []*stream
	var current *stream
	version := 0
	opening := 0
	nOps := 3 + t.Draw(6)
	type opT struct {
		Kind string `json:"kind"`
		Arg  int    `json:"arg,omitempty"`
	}
	var ops []opT
	for i := 0; i < nOps; i++ {
		k := []string{"open", "open", "close-current", "close-old", "pause", "stall-current"}[t.Draw(6)]
		if i == 0 {
			k = "open"
		}
		ops = append(ops, opT{Kind: k, Arg: t.Draw(3)})
	}
	c.SetPlan("ops", ops)
	nSends := 4 + t.Draw(10)
	c.SetPlan("sends", nSends)

	type sendRec struct {
		nonce            string
		err              error
		stable           bool
		target           *stream
		startStep, endAt int
	}
	var sends []*sendRec
	peerDone := false

	peer := s.Go("peer", func() {
		for _, op := range ops {
			switch op.Kind {
			case "open":
				version++
				opening++
				n := len(streams) + 1
				hdr := withSession(map[string]string{"Accept": "text/event-stream"}, sid)
				resumed := op.Arg == 2 && n > 1
				if resumed {
					// a reconnect that asks for resumption: the server writes a notice of its own on
					// the new stream while it is being established
					hdr["Last-Event-ID"] = fmt.Sprintf("evt-%d", n)
					s.Probe("c11.open_with_last_event_id")
				}
				rs, err := rawOpenStream(c, fmt.Sprintf("peer/get%d", n), "GET", "http://srv/mcp", hdr, nil)
				opening--
				version++
				if err != nil || rs.Status != 200 {
					s.Violate("C11|open-failed", "GET #%d failed: status %v err %v", n, rs, err)
					return
				}
				st := &stream{n: n, rs: rs, resumed: resumed}
				streams = append(streams, st)
				current = st
			case "close-current":
				if current != nil && !current.closed {
					version++
					current.closed = true
					current.rs.Close()
					current = nil
					version++
				}
			case "close-old":
				for _, st := range streams {
					if st != current && !st.closed {
						version++
						st.closed = true
						st.rs.Close()
						version++
						break
					}
				}
			case "stall-current":
				// the peer stops reading the current stream (a half-dead connection): sends to it block
				// in their write; a reconnect must still get the old stream closed and own the session
				if current != nil && !current.closed && !current.stalled {
					current.stalled = true
					current.rs.Conn.StopReading(1 << 10)
					s.Probe("c11.stalled_stream")
				}
			case "pause":
				s.Sleep(time.Duration(1+op.Arg) * time.Millisecond)
			}
			s.Yield("peer#next")
		}
		peerDone = true
	})
	sender := s.Go("sender", func() {
		for i := 0; i < nSends; i++ {
			r := &sendRec{nonce: c.Nonce("s")}
			v0, op0, cur0 := version, opening, current
			err := w.Srv.SendNotification(sid, "notifications/verif", map[string]interface{}{"nonce": r.nonce})
			r.err = err
			r.stable = v0 == version && op0 == 0 && opening == 0 && cur0 == current
			r.target = cur0
			sends = append(sends, r)
			if c.T.Bool(30) {
				s.Sleep(time.Millisecond)
			} else {
				s.Yield("sender#next")
			}
		}
	})
	s.WaitTasks(10*time.Minute, peer)
	s.Settle(20 * time.Millisecond)
	// a stream the peer has stopped reading must not keep its successor from taking over: the server
	// closes it although a send may be stuck in a write to it
	if peerDone {
		for i, st := range streams {
			if st.stalled && i+1 < len(streams) && !st.closed && !st.rs.Conn.Done() {
				// told apart: is a newer stream stalled as well?  Then a write of the old stream's
				// handler that is routed to the session's current stream (the resumption notice)
				// shares that stream's back-pressure - a different history with a different cause
				sig := "C11|old-stream-not-closed|stalled"
				what := "a send is blocked in a write to it"
				if st.resumed {
					// its handler writes a resumption notice itself, before it ever waits for the end
					// of the stream: a history of its own (known finding)
					sig += "|resumption"
					what = "it had asked for resumption: its handler writes the notice itself"
				}
				for _, later := range streams[i+1:] {
					if later.stalled && !later.closed {
						sig += "|successor-stalled-too"
						what = fmt.Sprintf("and so did it stop reading the newer stream #%d", later.n)
						break
					}
				}
				s.Violate(sig, "stream #%d (which the peer stopped reading, %s) is still being served although stream #%d was opened after it", st.n, what, streams[i+1].n)
			}
		}
	}
	for _, st := range streams {
		if st.stalled {
			st.rs.Conn.ResumeReading()
		}
	}
	s.WaitTasks(10*time.Minute, sender)
	s.Settle(20 * time.Millisecond)

	// final state: with the dust settled a send succeeds iff a stream is open
	finalNonce := c.Nonce("f")
	finalErr := w.Srv.SendNotification(sid, "notifications/verif", map[string]interface{}{"nonce": finalNonce})
	s.Settle(20 * time.Millisecond)
	if peerDone {
		if current != nil && finalErr != nil {
			s.Violate("C11|evicted", "stream #%d is open (headers received, never closed by the peer) and nothing is in flight, yet SendNotification fails: %v", current.n, finalErr)
		}
		if current == nil && finalErr == nil {
			open := 0
			for _, st := range streams {
				if !st.closed && !st.rs.Ended() {
					open++
				}
			}
			if open == 0 {
				s.Violate("C11|ghost-stream", "no stream is open but SendNotification reports success")
			}
		}
	}
	where := func(nonce string) (on []int, count int) {
		for _, st := range streams {
			for _, ev := range st.rs.WireEvents() {
				if strings.Contains(ev.Data, "\"nonce\":\""+nonce+"\"") {
					on = append(on, st.n)
					count++
				}
			}
		}
		return
	}
	if current != nil && finalErr == nil && peerDone {
		on, n := where(finalNonce)
		if n != 1 || on[0] != current.n {
			s.Violate("C11|misdelivered", "final notification delivered on streams %v (%d times); the owning stream is #%d", on, n, current.n)
		}
	}
	for _, r := range sends {
		on, n := where(r.nonce)
		if n > 1 {
			s.Violate("C11|duplicate", "notification %s delivered %d times (streams %v)", r.nonce, n, on)
		}
		if !r.stable {
			continue
		}
		s.Probe("c11.stable_sends")
		if r.target != nil {
			if r.err != nil {
				s.Violate("C11|send-failed-with-open-stream", "stream #%d had delivered its headers, was open and nothing else was in flight, yet SendNotification failed: %v", r.target.n, r.err)
			} else if n != 1 || on[0] != r.target.n {
				s.Violate("C11|misdelivered", "notification %s sent while stream #%d owned the session was delivered on %v", r.nonce, r.target.n, on)
			}
		} else if r.err == nil && n == 0 && false {
			// no stream open: success without delivery would be a lie, but is C05's accounting question
		}
	}
	if len(streams) >= 2 {
		s.Probe("c11.reopened")
	}
	for _, e := range s.LibEvents() {
		if strings.Contains(e, "response truncated") {
			s.Violate("C11|stream-not-ended-in-order", "a stream the server itself ends (replaced, session deleted) must end like any response, not like a broken connection: %s", e)
		}
	}
	// the old stream is closed by the server when a newer one takes over
	for i, st := range streams {
		if i+1 < len(streams) && !st.closed && !st.rs.Ended() {
			s.Violate("C11|old-stream-not-closed", "stream #%d is still open although stream #%d was opened after it", st.n, streams[i+1].n)
		}
	}
	for _, st := range streams {
		if !st.closed {
			st.rs.Close()
		}
	}
}
