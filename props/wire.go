package props

import (
	"encoding/json"
	"fmt"
	"strings"

	"verif/sim"
)

// wireFrame is one message a server put on the wire.
type wireFrame struct {
	Where string // e.g. "c12 POST /mcp" or "stdout of srv.cl1"
	Raw   []byte
	Info  frameInfo
	Conn  *sim.Conn
}

// sseFramesOf parses everything a server wrote on an event-stream exchange with the reference
// parser and reports framing problems.  aborted: the connection died, so a torn last event is fine.
func sseFramesOf(c *sim.Conn) (frames []wireFrame, events []SSEEvent, problems []string) {
	var p SSEParser
	events = p.Feed(c.Bytes())
	where := fmt.Sprintf("c%d %s %s", c.ID, c.Method, c.Path)
	for _, ev := range events {
		if ev.Type == "endpoint" {
			continue
		}
		fi, pr := parseFrame([]byte(ev.Data))
		for _, x := range pr {
			problems = append(problems, fmt.Sprintf("%s: SSE event %q: %s", where, short(ev.Raw), x))
		}
		frames = append(frames, wireFrame{Where: where, Raw: []byte(ev.Data), Info: fi, Conn: c})
	}
	aborted := c.Outcome != "" || c.BodyClosed || c.ReadErr != "" || !c.Done()
	if pend := p.Pending(); pend != "" && !aborted {
		problems = append(problems, fmt.Sprintf("%s: stream ends inside an event: %q", where, short(pend)))
	}
	return
}

// httpFrames returns every JSON-RPC frame servers wrote on the simulated network in this run.
func httpFrames(c *Ctx) (frames []wireFrame, problems []string) {
	for _, conn := range c.S.Net.Conns() {
		if !conn.Reached {
			continue
		}
		ct := ""
		if conn.RespHeader != nil {
			ct = conn.RespHeader.Get("Content-Type")
		}
		switch {
		case strings.Contains(ct, "text/event-stream"):
			f, _, p := sseFramesOf(conn)
			frames = append(frames, f...)
			problems = append(problems, p...)
		case strings.Contains(ct, "application/json"):
			b := conn.Bytes()
			if len(strings.TrimSpace(string(b))) == 0 {
				continue
			}
			where := fmt.Sprintf("c%d %s %s", conn.ID, conn.Method, conn.Path)
			fi, pr := parseFrame(b)
			for _, x := range pr {
				problems = append(problems, fmt.Sprintf("%s: JSON body %q: %s", where, short(string(b)), x))
			}
			frames = append(frames, wireFrame{Where: where, Raw: b, Info: fi, Conn: conn})
		}
	}
	return
}

// pipeFrames parses a stdio byte stream with the strict line splitter.
func pipeFrames(p *sim.Pipe, cut bool) (frames []wireFrame, problems []string) {
	b := p.Bytes()
	lines, pr := strictLines(b)
	for _, x := range pr {
		if cut && strings.Contains(x, "unterminated") {
			continue
		}
		problems = append(problems, p.Name+": "+x)
	}
	for _, l := range lines {
		fi, pr := parseFrame(l)
		for _, x := range pr {
			problems = append(problems, fmt.Sprintf("%s: line %q: %s", p.Name, short(string(l)), x))
		}
		frames = append(frames, wireFrame{Where: p.Name, Raw: l, Info: fi})
	}
	return
}

// requestMethodByID maps the raw id of every request a client sent on this run to its method
// (HTTP: from the request bodies on the network record).
func requestMethods(c *Ctx) map[string]string {
	out := map[string]string{}
	for _, conn := range c.S.Net.Conns() {
		var m map[string]json.RawMessage
		if json.Unmarshal(conn.ReqBody, &m) != nil {
			continue
		}
		var method string
		if json.Unmarshal(m["method"], &method) == nil && m["id"] != nil {
			out[fmt.Sprintf("c%d", conn.ID)] = method
		}
	}
	return out
}
