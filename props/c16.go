package props

import (
	"context"
	"encoding/json"
	"fmt"
	"strings"
	"time"

	mcp "trpc.group/trpc-go/trpc-mcp-go"
	"verif/sim"
)

// C16 — handshake: version negotiation, advertised capabilities, client state machine.

func init() {
	register(&Scenario{Prop: "C16", Run: runC16, Opts: sim.Options{MaxSteps: 80000, MaxSimTime: 60 * time.Minute}})
}

var c16Versions = []string{"2025-03-26", "2024-11-05", "2025-03-27", "2024-11-5", "2025-06-18", "", "latest", "2025-03-26 ", "２０２５-03-26", "1", strings.Repeat("9", 5000)}
var c16Supported = map[string]bool{"2025-03-26": true, "2024-11-05": true}

func runC16(c *Ctx) {
	if c.T.Bool(45) {
		c16Server(c)
	} else {
		c16Client(c)
	}
}

// (a) what servers answer to initialize
func c16Server(c *Ctx) {
	s, t := c.S, c.T
	mode := allModes[int(c.Run)%len(allModes)]
	c.SetPlan("part", "server")
	c.SetPlan("mode", mode)
	w := newWorld(c, mode, "srv")
	s.Net.Faults = sim.NetFaults{Delay: t.Pick(0, 10)}
	havePrompt, haveRes := t.Bool(40), t.Bool(40)
	racePrompt, raceRes := !havePrompt && t.Bool(40), !haveRes && t.Bool(40)
	c.SetPlan("registered", map[string]bool{"prompt": havePrompt, "resource": haveRes, "prompt_racing": racePrompt, "resource_racing": raceRes})
	regPrompt := func(r registrar) {
		r.RegisterPrompt(&mcp.Prompt{Name: "p"}, func(ctx context.Context, req *mcp.GetPromptRequest) (*mcp.GetPromptResult, error) {
			return &mcp.GetPromptResult{}, nil
		})
	}
	regRes := func(r registrar) {
		r.RegisterResource(&mcp.Resource{Name: "r", URI: "res://r"}, func(ctx context.Context, req *mcp.ReadResourceRequest) (mcp.ResourceContents, error) {
			return mcp.TextResourceContents{URI: "res://r"}, nil
		})
	}
	w.register(func(r registrar) {
		registerEcho0(c, r)
		if havePrompt {
			regPrompt(r)
		}
		if haveRes {
			regRes(r)
		}
	})
	nPeers := 1 + t.Draw(3)
	var promptRegStart, promptRegEnd, resRegStart, resRegEnd int64 = -1, -1, -1, -1
	var tasks []*sim.Task
	if racePrompt || raceRes {
		tasks = append(tasks, s.Go("registrar", func() {
			if c.T.Bool(50) {
				s.Sleep(time.Millisecond)
			}
			if racePrompt {
				promptRegStart = c.Stamp()
				w.register(regPrompt)
				promptRegEnd = c.Stamp()
			}
			s.Yield("registrar#mid")
			if raceRes {
				resRegStart = c.Stamp()
				w.register(regRes)
				resRegEnd = c.Stamp()
			}
		}))
	}
	for k := 0; k < nPeers; k++ {
		ver := c16Versions[t.Draw(len(c16Versions))]
		tasks = append(tasks, s.Go(fmt.Sprintf("peer%d", k), func() {
			peer, err := newRawPeer(c, w, fmt.Sprintf("peer%d", k), true)
			if err != nil {
				s.Violate("C16|peer-setup|mode="+mode, "%v", err)
				return
			}
			defer peer.close()
			if mode == "stdio" && (racePrompt || raceRes) {
				// registrations of the stdio world apply to every process, including this new one
			}
			id := fmt.Sprintf("init-%d", k)
			begin := c.Stamp()
			r := peer.exchange(rpcReq(id, "initialize", initParams(ver)), nil)
			end := c.Stamp()
			if r.Err != nil {
				s.Violate("C16|initialize-transport-error|mode="+mode, "%v", r.Err)
				return
			}
			var res struct {
				Result *struct {
					ProtocolVersion string                     `json:"protocolVersion"`
					ServerInfo      map[string]interface{}     `json:"serverInfo"`
					Capabilities    map[string]json.RawMessage `json:"capabilities"`
				} `json:"result"`
				Error json.RawMessage `json:"error"`
			}
			found := false
			for _, f := range r.Frames {
				fi, _ := parseFrame(f)
				if fi.ID == string(mustJSON(id)) {
					json.Unmarshal(f, &res)
					found = true
				}
			}
			if !found || res.Result == nil {
				s.Violate("C16|initialize-unanswered|mode="+mode, "initialize with version %q got status %d, frames %s", short(ver), r.Status, short(framesText(r.Frames)))
				return
			}
			want := "2025-03-26"
			if c16Supported[ver] {
				want = ver
			}
			if got := res.Result.ProtocolVersion; got != want {
				sig := "C16|version-negotiation|mode=" + mode
				if !c16Supported[got] {
					sig = "C16|unsupported-version-answered|mode=" + mode
				}
				s.Violate(sig, "requested %q, server answered %q, the rule gives %q", short(ver), short(got), want)
			}
			if res.Result.ServerInfo["name"] != "verif-server" || res.Result.ServerInfo["version"] != "1.2.3" {
				s.Violate("C16|server-info|mode="+mode, "serverInfo is %v, configured verif-server 1.2.3", res.Result.ServerInfo)
			}
			caps := res.Result.Capabilities
			if _, ok := caps["tools"]; !ok {
				s.Violate("C16|tools-capability-missing|mode="+mode, "capabilities %v lack tools", keysOf(caps))
			}
			check := func(name string, have bool, regStart, regEnd int64) {
				_, adv := caps[name]
				mustHave := have || (regEnd >= 0 && regEnd < begin)
				mustNot := !have && (regStart < 0 || regStart > end)
				if mustHave && !adv {
					s.Violate("C16|capability-missing|"+name+"|mode="+mode, "a %s was registered before the request began, yet the %s capability is not advertised (capabilities %v)", strings.TrimSuffix(name, "s"), name, keysOf(caps))
				}
				if mustNot && adv {
					s.Violate("C16|capability-phantom|"+name+"|mode="+mode, "no %s was registered at any instant of the request, yet the %s capability is advertised", strings.TrimSuffix(name, "s"), name)
				}
			}
			check("prompts", havePrompt, promptRegStart, promptRegEnd)
			check("resources", haveRes, resRegStart, resRegEnd)
		}))
	}
	for _, a := range s.WaitTasks(20*time.Minute, tasks...) {
		s.Violate("C16|stuck|mode="+mode, "%s did not finish", a.Name)
	}
	s.Probe("c16.server." + mode)
}

func registerEcho0(c *Ctx, r registrar) {
	r.RegisterTool(mcp.NewTool("echo", mcp.WithString("nonce")), func(ctx context.Context, req *mcp.CallToolRequest) (*mcp.CallToolResult, error) {
		n, _ := req.Params.Arguments["nonce"].(string)
		return &mcp.CallToolResult{Content: []mcp.Content{mcp.NewTextContent("r:" + n)}}, nil
	})
}

func keysOf(m map[string]json.RawMessage) []string {
	var out []string
	for k := range m {
		out = append(out, k)
	}
	return out
}

// (b) the client state machine
func c16Client(c *Ctx) {
	s, t := c.S, c.T
	mode := []string{"json", "post-sse", "stateless", "legacy-sse", "stdio"}[int(c.Run)%5]
	c.SetPlan("part", "client")
	c.SetPlan("mode", mode)
	w := newWorld(c, mode, "srv")
	w.register(func(r registrar) { registerEcho0(c, r) })
	cl := w.newClient()
	// how the first handshake goes
	initFault := []string{"none", "none", "refuse", "reset-initialize", "status-500", "rpc-error", "initialized-notification-fails", "stall-until-deadline"}[t.Draw(8)]
	if mode == "stdio" {
		initFault = []string{"none", "none", "kill-before", "kill-after-request", "stall-until-deadline"}[t.Draw(5)]
	}
	c.SetPlan("first_handshake", initFault)
	httpReqs := 0
	s.Net.OnConn = func(conn *sim.Conn) {
		// only requests sent by the task that performs the operations count: the listening stream a
		// successful handshake opens in the background is not traffic of a later operation
		if conn.Client == "root" {
			httpReqs++
		}
	}
	seenPosts := 0
	armed := true
	s.Net.Script = func(conn *sim.Conn) *sim.Outcome {
		if !armed {
			return nil
		}
		isInit := strings.Contains(string(conn.ReqBody), `"method":"initialize"`)
		isInitialized := strings.Contains(string(conn.ReqBody), "notifications/initialized")
		if conn.Method == "POST" {
			seenPosts++
		}
		switch initFault {
		case "refuse":
			return &sim.Outcome{Kind: "refuse"}
		case "reset-initialize":
			if isInit {
				return &sim.Outcome{Kind: "reset"}
			}
		case "status-500":
			if isInit {
				return &sim.Outcome{Kind: "status", Status: 500, Body: "boom"}
			}
		case "initialized-notification-fails":
			if isInitialized {
				return &sim.Outcome{Kind: "reset"}
			}
		case "stall-until-deadline":
			if isInit {
				return &sim.Outcome{Kind: "timeout", Delay: 10 * time.Minute}
			}
		}
		return nil
	}
	if initFault == "rpc-error" {
		// a server that answers initialize with a JSON-RPC error: the library's own server does so for bad params;
		// the client is made to send an empty protocolVersion... it cannot; use a scripted host instead
		s.Net.NoWriterContract = true // the server is a harness script
		s.Net.Serve("srv", scriptedErrorServer(mode))
	}
	if cl.Link != nil {
		switch initFault {
		case "kill-before":
			cl.Link.Kill()
		case "stall-until-deadline":
			// the child never answers: swallow its stdout by never starting... simulate by killing only the reader side
			cl.Link.FromSrv.ShortRead = 0
		}
	}
	// reference state machine
	state := "disconnected"
	stdioReqBytes := func() int {
		if cl.Link != nil {
			return len(cl.Link.ToSrv.Bytes())
		}
		return 0
	}
	traffic := func() int { return httpReqs + stdioReqBytes() }
	checkState := func(when string) {
		got := string(cl.API.GetState())
		if got != state {
			s.Violate(fmt.Sprintf("C16|state|%s|want=%s|got=%s", cl.Kind, state, got), "%s: GetState() = %s, the history leaves the client %s", when, got, state)
		}
	}
	doOp := func(when string) {
		before := traffic()
		ctx, cancel := context.WithTimeout(context.Background(), 2*time.Minute)
		defer cancel()
		var err error
		opName := ""
		switch c.T.Draw(6) {
		case 0:
			opName = "ListTools"
			_, err = cl.API.ListTools(ctx, &mcp.ListToolsRequest{})
		case 1:
			opName = "CallTool"
			_, err = cl.API.CallTool(ctx, callToolReq("echo", map[string]interface{}{"nonce": "x"}))
		case 2:
			opName = "ListPrompts"
			_, err = cl.API.ListPrompts(ctx, &mcp.ListPromptsRequest{})
		case 3:
			opName = "GetPrompt"
			_, err = cl.API.GetPrompt(ctx, getPromptReq("p", nil))
		case 4:
			opName = "ListResources"
			_, err = cl.API.ListResources(ctx, &mcp.ListResourcesRequest{})
		case 5:
			opName = "ReadResource"
			_, err = cl.API.ReadResource(ctx, readResourceReq("res://r", nil))
		}
		if state != "initialized" {
			if err == nil || !strings.Contains(strings.ToLower(err.Error()), "not initialized") {
				s.Violate(fmt.Sprintf("C16|op-before-handshake|%s|%s", cl.Kind, opName), "%s: %s on a client that is %s returned %v instead of a not-initialized error", when, opName, state, err)
			}
			if after := traffic(); after != before {
				s.Violate(fmt.Sprintf("C16|traffic-before-handshake|%s|%s", cl.Kind, opName), "%s: %s on a client that is %s touched the network (%d -> %d requests/bytes)", when, opName, state, before, after)
			}
		}
	}
	doInit := func(when string, deadline time.Duration) {
		before := traffic()
		ctx, cancel := context.WithTimeout(context.Background(), deadline)
		defer cancel()
		if cl.Link != nil && initFault == "kill-after-request" && armed {
			s.Go("killer", func() {
				for i := 0; i < 200 && len(cl.Link.ToSrv.Bytes()) == 0; i++ {
					s.Settle(time.Millisecond)
				}
				cl.Link.Kill()
			})
		}
		_, err := cl.API.Initialize(ctx, &mcp.InitializeRequest{})
		if state == "initialized" {
			if err == nil {
				s.Violate("C16|second-handshake-accepted|"+cl.Kind, "%s: a second Initialize on an initialized client succeeded", when)
			} else if after := traffic(); after != before {
				s.Violate("C16|second-handshake-traffic|"+cl.Kind, "%s: a refused second Initialize touched the network", when)
			}
			return
		}
		if err == nil {
			state = "initialized"
		} else {
			state = "disconnected"
		}
	}
	type step struct{ Kind string }
	var plan []string
	steps := []string{"op"}
	if t.Bool(30) {
		steps = append(steps, "op")
	}
	steps = append(steps, "init")
	for n := 2 + t.Draw(6); n > 0; n-- {
		steps = append(steps, []string{"op", "op", "init", "close", "state"}[t.Draw(5)])
	}
	for i, st := range steps {
		plan = append(plan, st)
		when := fmt.Sprintf("step %d (%s)", i, st)
		switch st {
		case "op":
			doOp(when)
		case "init":
			dl := 3 * time.Minute
			doInit(when, dl)
			armed = false // only the first handshake is sabotaged
		case "close":
			cl.API.Close()
			state = "disconnected"
		}
		checkState(when)
		s.Yield("c16#next")
	}
	c.SetPlan("steps", plan)
	cl.API.Close()
	s.Probe("c16.client." + mode + "." + initFault)
}

// scriptedErrorServer answers initialize with a JSON-RPC error (over the transport the mode needs).
func scriptedErrorServer(mode string) *scriptedErr { return &scriptedErr{mode: mode} }
