package props

import (
	"context"
	"encoding/hex"
	"fmt"
	"sort"
	"strings"
	"time"

	mcp "trpc.group/trpc-go/trpc-mcp-go"
	"verif/sim"
)

// C04 — Streamable-HTTP session lifecycle follows the protocol state machine.
//
// Raw reference peers execute tape-generated histories; an executable reference model (the set of
// live ids + the expected outcome class of every operation) is compared with the server.

func init() {
	register(&Scenario{Prop: "C04", Run: runC04, Opts: sim.Options{MaxSteps: 100000, MaxSimTime: 45 * time.Minute}})
}

type c04Actor struct {
	name   string
	sid    string // own live session ("" if none)
	stream *RawStream
}

func runC04(c *Ctx) {
	s, t := c.S, c.T
	mode := []string{"post-sse", "json", "stateless", "nosession"}[t.Draw(4)]
	getEnabled := t.Bool(80)
	c.SetPlan("mode", mode)
	c.SetPlan("get_enabled", getEnabled)
	var extra []mcp.ServerOption
	if !getEnabled {
		extra = append(extra, mcp.WithGetSSEEnabled(false))
	}
	w := newWorld(c, mode, "srv", extra...)
	registerEcho(c, w.Reg, w.Count)
	other := newWorld(c, "post-sse", "other") // a second server instance: maker of "foreign" ids
	s.Net.Faults = sim.NetFaults{Delay: t.Pick(0, 0, 10), ShortRead: t.Pick(0, 20)}
	stateful := mode == "post-sse" || mode == "json"
	url := "http://srv/mcp"

	// ---- reference model ----
	live := map[string]bool{}
	var deleted []string
	issued := map[string]bool{}
	var foreign string
	if r := rawDo(c, context.Background(), "POST", "http://other/mcp", jsonOnlyHdr, rpcReq(1, "initialize", initParams("2025-03-26"))); r.Err == nil {
		foreign = r.Header.Get("Mcp-Session-Id")
	}
	_ = other
	checkActive := func(when string) {
		if !stateful && mode != "nosession" {
			return
		}
		got, err := w.Srv.GetActiveSessions()
		if err != nil {
			s.Violate("C04|active-sessions-error|"+mode, "GetActiveSessions failed: %v", err)
			return
		}
		sort.Strings(got)
		var want []string
		for id := range live {
			want = append(want, id)
		}
		sort.Strings(want)
		if strings.Join(got, ",") != strings.Join(want, ",") {
			s.Violate("C04|live-set-mismatch|"+mode, "%s: server reports live sessions %v, the history leaves %v alive", when, got, want)
		}
	}
	expect := func(what string, r *RawResp, wantStatus ...int) bool {
		if r.Err != nil {
			s.Violate(fmt.Sprintf("C04|transport-error|%s|%s", mode, what), "%s: %v", what, r.Err)
			return false
		}
		for _, ws := range wantStatus {
			if r.Status == ws {
				return true
			}
		}
		s.Violate(fmt.Sprintf("C04|status|%s|%s|got=%d", mode, what, r.Status), "%s answered %d, the protocol state machine requires %v (body %q)", what, r.Status, wantStatus, short(string(r.Body)))
		return false
	}
	noSessionHeader := func(what string, r *RawResp) {
		if v := r.Header.Get("Mcp-Session-Id"); v != "" {
			s.Violate(fmt.Sprintf("C04|session-id-issued|%s|%s", mode, what), "%s: the response carries Mcp-Session-Id %q although no session may be issued here", what, v)
		}
	}
	// choose an id of a given class for an actor
	pickID := func(a *c04Actor, class string) (string, bool) {
		switch class {
		case "none":
			return "", true
		case "live":
			return a.sid, a.sid != ""
		case "deleted":
			if len(deleted) == 0 {
				return "", false
			}
			return deleted[c.T.Draw(len(deleted))], true
		case "never":
			return fmt.Sprintf("%032x", uint64(c.T.Draw(1<<30))+1), true
		case "foreign":
			return foreign, foreign != ""
		}
		return "", false
	}
	// expected status of an operation that needs a session, by id class (stateful mode)
	statefulStatus := func(class string, ok int) int {
		switch class {
		case "none":
			return 400
		case "live":
			return ok
		}
		return 404
	}
	doOp := func(a *c04Actor, op, class string) {
		id, ok := pickID(a, class)
		if !ok {
			return
		}
		what := op + "/" + class
		hdr := withSession(jsonHdr, id)
		ctx := context.Background()
		switch op {
		case "initialize":
			before, _ := sim.RandDrawn()
			r := rawDo(c, ctx, "POST", url, hdr, rpcReq(c.Nonce("i"), "initialize", initParams("2025-03-26")))
			after, log := sim.RandDrawn()
			switch {
			case !stateful:
				if expect(what, r, 200) {
					noSessionHeader(what, r)
				}
			case class == "none":
				if !expect(what, r, 200) {
					return
				}
				sid := r.Header.Get("Mcp-Session-Id")
				if sid == "" {
					s.Violate("C04|no-session-id|"+mode, "initialize without id was answered without Mcp-Session-Id")
					return
				}
				if issued[sid] {
					s.Violate("C04|id-reused|"+mode, "session id %q was issued twice", sid)
				}
				issued[sid] = true
				live[sid] = true
				for _, ch := range sid {
					if ch < 0x21 || ch > 0x7e {
						s.Violate("C04|id-not-visible-ascii|"+mode, "session id %q contains a character outside visible ASCII", sid)
						break
					}
				}
				// at least 128 bits actually drawn from the system CSPRNG during this initialize, and the id encodes them
				fromRand := false
				if after-before >= 16 {
					for _, chunk := range log {
						if len(chunk) >= 16 && (strings.Contains(sid, hex.EncodeToString(chunk[:16])) || strings.Contains(strings.ReplaceAll(sid, "-", ""), hex.EncodeToString(chunk[:16]))) {
							fromRand = true
						}
					}
				}
				if !fromRand {
					s.Violate("C04|id-not-from-csprng|"+mode, "session id %q is not the encoding of >=16 bytes drawn from crypto/rand during its initialize (%d bytes were drawn)", sid, after-before)
				}
				if a.sid == "" {
					a.sid = sid
				} else {
					// the actor keeps its first session; the extra one stays live until the end
				}
			case class == "live":
				if expect(what, r, 200) {
					if got := r.Header.Get("Mcp-Session-Id"); got != id {
						s.Violate("C04|id-changed|"+mode, "initialize inside session %q was answered with session id %q", id, got)
					}
				}
			default:
				expect(what, r, 404)
			}
		case "request":
			nonce := c.Nonce("q")
			r := rawDo(c, ctx, "POST", url, hdr, rpcReq(nonce, "tools/call", map[string]interface{}{"name": "echo", "arguments": map[string]interface{}{"nonce": nonce}}))
			if !stateful {
				if expect(what, r, 200) {
					noSessionHeader(what, r)
					if !strings.Contains(string(r.Body), "r:"+nonce) {
						s.Violate("C04|stateless-answer|"+mode, "request with session class %q got %q", class, short(string(r.Body)))
					}
				}
				return
			}
			if expect(what, r, statefulStatus(class, 200)) && class == "live" {
				if got := r.Header.Get("Mcp-Session-Id"); got != id {
					s.Violate("C04|id-changed|"+mode, "request in session %q was answered with session id %q", id, got)
				}
				if !strings.Contains(string(r.Body), "r:"+nonce) {
					s.Violate("C04|request-not-served|"+mode, "request in live session got %q", short(string(r.Body)))
				}
			}
		case "notification":
			r := rawDo(c, ctx, "POST", url, hdr, rpcNotif("notifications/roots/list_changed", nil))
			if !stateful {
				if expect(what, r, 202) {
					noSessionHeader(what, r)
				}
				return
			}
			expect(what, r, statefulStatus(class, 202))
		case "response-post":
			r := rawDo(c, ctx, "POST", url, hdr, mustJSON(map[string]interface{}{"jsonrpc": "2.0", "id": 424242, "result": map[string]interface{}{}}))
			if !stateful {
				if r.Err == nil {
					noSessionHeader(what, r)
				}
				return
			}
			expect(what, r, statefulStatus(class, 202))
		case "get":
			if a.stream != nil && class == "live" {
				return
			}
			rs, err := rawOpenStream(c, a.name+"/get"+c.Nonce(""), "GET", url, withSession(map[string]string{"Accept": "text/event-stream"}, id), nil)
			if err != nil {
				s.Violate(fmt.Sprintf("C04|transport-error|%s|%s", mode, what), "%s: %v", what, err)
				return
			}
			want := 200
			switch {
			case !getEnabled:
				want = 405
			case mode == "stateless":
				want = 405
			case mode == "nosession":
				want = 0 // not specified by the statement
			default:
				want = statefulStatus(class, 200)
			}
			if want != 0 && rs.Status != want {
				s.Violate(fmt.Sprintf("C04|status|%s|%s|got=%d", mode, what, rs.Status), "%s answered %d, the protocol state machine requires %d", what, rs.Status, want)
			}
			if rs.Status == 200 && class == "live" {
				a.stream = rs
				if got := rs.Header.Get("Mcp-Session-Id"); got != id {
					s.Violate("C04|id-changed|"+mode, "GET in session %q was answered with session id %q", id, got)
				}
			} else {
				if rs.Status == 200 && stateful {
					s.Violate("C04|stream-for-unknown-session|"+mode, "GET with %s session id was given a stream", class)
				}
				if !stateful {
					if v := rs.Header.Get("Mcp-Session-Id"); v != "" {
						s.Violate(fmt.Sprintf("C04|session-id-issued|%s|%s", mode, what), "GET response carries Mcp-Session-Id %q", v)
					}
				}
				rs.Close()
			}
		case "stream-close":
			if a.stream != nil {
				a.stream.Close()
				a.stream = nil
			}
		case "delete-race":
			// two DELETEs of the own live session at once: in any order one ends the session, the other
			// finds it gone
			if !stateful || class != "live" {
				return
			}
			var st [2]int
			var ts []*sim.Task
			for k := 0; k < 2; k++ {
				ts = append(ts, s.Go(fmt.Sprintf("%s/del%d-%s", a.name, k, c.Nonce("")), func() {
					if r := rawDo(c, ctx, "DELETE", url, withSession(nil, id), nil); r.Err == nil {
						st[k] = r.Status
					}
				}))
			}
			s.WaitTasks(5*time.Minute, ts...)
			ok200 := 0
			for _, x := range st {
				if x == 200 {
					ok200++
				} else if x != 404 {
					s.Violate(fmt.Sprintf("C04|status|%s|delete-race|got=%d", mode, x), "one of two concurrent DELETEs of a live session answered %d (want 200 or 404)", x)
				}
			}
			if ok200 != 1 {
				s.Violate(fmt.Sprintf("C04|double-delete|%s|n200=%d", mode, ok200), "two concurrent DELETEs of one live session: %d of them answered 200 (statuses %v); a DELETE bearing an already deleted id must get 404", ok200, st)
			}
			delete(live, id)
			a.sid = ""
			if a.stream != nil {
				a.stream.Close()
				a.stream = nil
			}
			c.mu.Lock()
			deleted = append(deleted, id)
			c.mu.Unlock()
		case "delete-get-race":
			// the own live session is deleted while a listening stream for it is being (re)opened:
			// whichever order the server serialises them in, once both have been answered and the
			// DELETE said 200 the session has no open stream
			if !stateful || class != "live" || !getEnabled {
				return
			}
			if a.stream != nil {
				a.stream.Close()
				a.stream = nil
			}
			var delStatus int
			var gs *RawStream
			del := s.Go(fmt.Sprintf("%s/del-%s", a.name, c.Nonce("")), func() {
				if r := rawDo(c, ctx, "DELETE", url, withSession(nil, id), nil); r.Err == nil {
					delStatus = r.Status
				}
			})
			get := s.Go(fmt.Sprintf("%s/get-%s", a.name, c.Nonce("")), func() {
				gs, _ = rawOpenStream(c, a.name+"/get"+c.Nonce(""), "GET", url, withSession(map[string]string{"Accept": "text/event-stream"}, id), nil)
			})
			s.WaitTasks(5*time.Minute, del, get)
			if delStatus != 200 {
				s.Violate(fmt.Sprintf("C04|status|%s|delete-get-race|got=%d", mode, delStatus), "DELETE of a live session (concurrent with a GET for it) answered %d", delStatus)
			}
			delete(live, id)
			a.sid = ""
			c.mu.Lock()
			deleted = append(deleted, id)
			c.mu.Unlock()
			if gs != nil {
				switch gs.Status {
				case 200:
					for i := 0; i < 50 && !gs.Ended(); i++ {
						s.Settle(time.Millisecond)
					}
					if !gs.Ended() {
						s.Violate("C04|stream-survives-delete|"+mode+"|reopened-during-delete", "a listening stream opened while the session was being deleted is still open after DELETE returned 200")
					}
					s.Probe("c04.delete_get_race.stream_opened")
				case 404:
					s.Probe("c04.delete_get_race.refused")
				default:
					s.Violate(fmt.Sprintf("C04|status|%s|delete-get-race-get|got=%d", mode, gs.Status), "GET concurrent with the DELETE of its session answered %d (want 200 or 404)", gs.Status)
				}
				gs.Close()
			}
		case "delete":
			r := rawDo(c, ctx, "DELETE", url, withSession(nil, id), nil)
			if !stateful {
				return
			}
			if !expect(what, r, statefulStatus(class, 200)) {
				return
			}
			if class == "live" && r.Status == 200 {
				delete(live, id)
				a.sid = ""
				st := a.stream
				a.stream = nil
				c.mu.Lock()
				deleted = append(deleted, id)
				c.mu.Unlock()
				if st != nil {
					for i := 0; i < 50 && !st.Ended(); i++ {
						s.Settle(time.Millisecond)
					}
					if !st.Ended() {
						s.Violate("C04|stream-survives-delete|"+mode, "the session's GET stream is still open after DELETE returned 200")
						st.Close()
					}
				}
			}
		}
	}

	nActors := 1 + t.Draw(4)
	sequential := nActors == 1
	opsAll := []string{"initialize", "request", "request", "notification", "response-post", "get", "stream-close", "delete", "delete-race", "delete-get-race"}
	classes := []string{"none", "live", "live", "live", "deleted", "never", "foreign"}
	var tasks []*sim.Task
	var plan [][]string
	for k := 0; k < nActors; k++ {
		a := &c04Actor{name: fmt.Sprintf("actor%d", k)}
		n := 4 + t.Draw(10)
		type stepT struct{ op, class string }
		var steps []stepT
		var desc []string
		steps = append(steps, stepT{"initialize", "none"})
		for i := 0; i < n; i++ {
			st := stepT{opsAll[t.Draw(len(opsAll))], classes[t.Draw(len(classes))]}
			steps = append(steps, st)
			desc = append(desc, st.op+"/"+st.class)
		}
		plan = append(plan, desc)
		tasks = append(tasks, s.Go(a.name, func() {
			for _, st := range steps {
				doOp(a, st.op, st.class)
				if sequential {
					checkActive("after " + st.op + "/" + st.class)
				}
				s.Yield("actor#next")
			}
			if a.stream != nil {
				a.stream.Close()
			}
		}))
	}
	c.SetPlan("actors", plan)
	// somebody keeps asking the server for its live sessions while the histories run: what it is
	// told must be ids that were issued, and asking must not disturb what is reported at the end
	if t.Bool(60) {
		stop := false
		poller := s.Go("poller", func() {
			for i := 0; i < 200 && !stop; i++ {
				if _, err := w.Srv.GetActiveSessions(); err != nil && (stateful || mode == "nosession") {
					s.Violate("C04|active-sessions-error|"+mode, "GetActiveSessions failed: %v", err)
				}
				s.Yield("poller#next")
				if c.T.Bool(30) {
					s.Sleep(time.Millisecond)
				}
			}
		})
		defer func() { stop = true; _ = poller }()
		s.Probe("c04.poller")
	}
	for _, a := range s.WaitTasks(40*time.Minute, tasks...) {
		s.Violate("C04|stuck|"+mode, "%s did not finish", a.Name)
	}
	s.Settle(10 * time.Millisecond)
	checkActive("at the end")
	// stateless: the answer to a request does not depend on any earlier request
	if !stateful {
		body := rpcReq("same", "tools/list", nil)
		r1 := rawDo(c, context.Background(), "POST", url, jsonOnlyHdr, body)
		rawDo(c, context.Background(), "POST", url, jsonOnlyHdr, rpcReq("x", "initialize", initParams("2024-11-05")))
		rawDo(c, context.Background(), "POST", url, jsonOnlyHdr, rpcReq("y", "ping", nil))
		r2 := rawDo(c, context.Background(), "POST", url, jsonOnlyHdr, body)
		if r1.Err == nil && r2.Err == nil && (r1.Status != r2.Status || string(r1.Body) != string(r2.Body)) {
			s.Violate("C04|stateless-history-dependence|"+mode, "the same request was answered %d %q and, after other requests, %d %q", r1.Status, short(string(r1.Body)), r2.Status, short(string(r2.Body)))
		}
	}
	for _, conn := range s.Net.Conns() {
		if conn.Host == "srv" && !stateful && conn.RespHeader != nil && conn.RespHeader.Get("Mcp-Session-Id") != "" {
			s.Violate("C04|session-id-issued|"+mode+"|any", "c%d %s answered with Mcp-Session-Id in a mode that has no sessions", conn.ID, conn.Method)
		}
	}
	for _, e := range s.LibEvents() {
		if strings.Contains(e, "response truncated") {
			s.Violate("C04|stream-not-ended-in-order", "a stream the server itself ends (replaced, session deleted) must end like any response, not like a broken connection: %s", e)
		}
	}
	s.Probe("c04.mode." + mode)
}
