#!/bin/bash
# tools/rebase_patch.sh <seeded-dir>
# When patch.diff no longer applies to /repo's HEAD (later "fix:" commits moved its context): find the
# newest commit it applies to, commit it there in a scratch worktree and cherry-pick it onto HEAD.  On
# success patch.diff is rewritten (the original is kept as patch.orig.diff); nothing is left in /repo.
d=$(cd "$1" && pwd)
name=$(basename "$d")
cd /repo || exit 2
if git apply --check "$d/patch.diff" 2>/dev/null; then echo "$name: applies"; exit 0; fi
WT=/var/tmp/verif-scratch/rebase-$name
HEADC=$(git rev-parse HEAD)
G="git -c user.name=verif -c user.email=verif@localhost"
for c in $(git log --format=%h -80); do
  rm -rf "$WT"; git worktree prune
  git worktree add -q --detach "$WT" "$c" || exit 2
  if (cd "$WT" && git apply --check "$d/patch.diff" 2>/dev/null); then
    (cd "$WT" && git apply "$d/patch.diff" && git add -A && $G commit -qm "seeded change $name") || exit 2
    M=$(cd "$WT" && git rev-parse HEAD)
    if (cd "$WT" && git checkout -q --detach "$HEADC" && $G cherry-pick "$M" >/dev/null 2>&1); then
      [ -f "$d/patch.orig.diff" ] || cp "$d/patch.diff" "$d/patch.orig.diff"
      (cd "$WT" && git diff HEAD~1 HEAD) > "$d/patch.diff"
      if (cd "$WT" && GOFLAGS=-mod=mod GOPROXY=off GOSUMDB=off go build ./... >/dev/null 2>&1); then
        echo "$name: rebased from $c"
      else
        echo "$name: rebased from $c but DOES NOT BUILD"
      fi
      git worktree remove --force "$WT"; git worktree prune
      exit 0
    fi
    echo "$name: CONFLICT when moving from $c to HEAD"
    (cd "$WT" && git cherry-pick --abort 2>/dev/null)
    git worktree remove --force "$WT"; git worktree prune
    exit 1
  fi
done
git worktree remove --force "$WT" 2>/dev/null; git worktree prune
echo "$name: applies to no recent commit"
exit 1
