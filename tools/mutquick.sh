#!/bin/bash
# quick look: does the property's own check (quick tier) catch a seeded change? (no suite / demo confirmation)
cd "$(dirname "$0")/.."
for d in "$@"; do
  name=$(basename $d); prop=${name%%-*}
  M=/var/tmp/verif-scratch/mq-$name; rm -rf $M; mkdir -p $M; rsync -a --exclude .git /repo/ $M/
  if ! (cd $M && git apply --whitespace=nowarn $OLDPWD/$d/patch.diff 2>/tmp/mq.err); then echo "$name: PATCH DOES NOT APPLY: $(head -2 /tmp/mq.err)"; rm -rf $M; continue; fi
  out=$(VERIF_OUTDIR=$M.out VERIF_REPO=$M ./check $prop ${TIER:-quick} 2>&1); rc=$?
  echo "$name rc=$rc $(echo "$out" | grep '^check' | cut -c1-100)"
  echo "$out" | grep "^violation\|CHECK-ERROR" | cut -c1-200 | head -4 | sed 's/^/     /'
  rm -rf $M $M.out
done
