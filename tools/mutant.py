#!/usr/bin/env python3
"""Evaluate one seeded change: tools/mutant.py <seeded-dir> [--all] [--thorough]

<seeded-dir> holds patch.diff, the demonstration test (demo_test.go) and meta.json (with
"demo_location": the directory, relative to the repository root, in which demo_test.go must be placed).
Steps, all in scratch copies of /repo under ${VERIF_SCRATCH} (removed afterwards):
  1. the patch applies and the tree builds;
  2. the repository's own suite passes with the patch;
  3. the demonstration fails with the patch and passes without it;
  4. the check of the property (and with --all every check) is run against the patched copy.
The outcome is written to <seeded-dir>/result.json and summarised on stdout.
"""
import json, os, shutil, subprocess, sys, time

V = os.path.dirname(os.path.dirname(os.path.abspath(__file__)))
SCRATCH = os.environ.get("VERIF_SCRATCH", "/var/tmp/verif-scratch")
ENV = dict(os.environ, GOFLAGS="-mod=mod", GOPROXY="off", GOSUMDB="off")


def sh(cmd, cwd=None, timeout=1800, env=None):
    r = subprocess.run(cmd, shell=True, cwd=cwd, env=env or ENV, stdout=subprocess.PIPE, stderr=subprocess.STDOUT, text=True, timeout=timeout)
    return r.returncode, r.stdout


def suite_cmd():
    return "go test -mod=mod -vet=off -count=1 -timeout 25m ./... 2>&1"


def copy_repo(dst):
    shutil.rmtree(dst, ignore_errors=True)
    os.makedirs(dst)
    sh("rsync -a --exclude .git /repo/ %s/" % dst)


def main():
    d = os.path.abspath(sys.argv[1])
    run_all = "--all" in sys.argv
    thorough = "--thorough" in sys.argv
    meta = json.load(open(os.path.join(d, "meta.json")))
    prop = meta["property"]
    name = os.path.basename(d)
    m = os.path.join(SCRATCH, "mut-" + name)
    clean = os.path.join(SCRATCH, "mutclean-" + name)
    res = {"seeded": name, "property": prop, "at": time.strftime("%Y-%m-%dT%H:%M:%SZ", time.gmtime())}
    try:
        copy_repo(m)
        rc, out = sh("git apply --whitespace=nowarn %s" % os.path.join(d, "patch.diff"), cwd=m)
        res["patch_applies"] = rc == 0
        if rc != 0:
            res["error"] = out[-800:]
            return finish(d, res)
        rc, out = sh("go build ./...", cwd=m)
        res["builds"] = rc == 0
        if rc != 0:
            res["error"] = out[-800:]
            return finish(d, res)
        if "--skip-suite" not in sys.argv:
            rc2, out = sh(suite_cmd(), cwd=m)
            res["suite_passes_with_patch"] = rc2 == 0
            if rc2 != 0:
                res["suite_output"] = "\n".join(l for l in out.splitlines() if not l.startswith("ok") and "no test files" not in l)[-1500:]
        # demonstration
        demo = os.path.join(d, "demo_test.go")
        loc = meta.get("demo_location", ".").strip("/") or "."
        if os.path.exists(demo):
            copy_repo(clean)
            for root in (m, clean):
                os.makedirs(os.path.join(root, loc), exist_ok=True)
                shutil.copy(demo, os.path.join(root, loc, "zz_seeded_demo_test.go"))
            runs = int(meta.get("demo_runs", 3))
            racef = "-race " if meta.get("demo_needs_race") is True else ""
            fails = 0
            for i in range(runs):
                rc, out = sh("go test %s-mod=mod -vet=off -count=1 -timeout 10m -run '%s' ./%s" % (racef, meta.get("demo_run_regex", "."), loc), cwd=m)
                fails += rc != 0
            res["demo_fails_with_patch"] = "%d/%d" % (fails, runs)
            rc, out = sh("go test %s-mod=mod -vet=off -count=1 -timeout 10m -run '%s' ./%s" % (racef, meta.get("demo_run_regex", "."), loc), cwd=clean)
            res["demo_passes_without_patch"] = rc == 0
            if rc != 0:
                res["demo_clean_output"] = out[-1200:]
            os.remove(os.path.join(m, loc, "zz_seeded_demo_test.go"))
        # our checks against the patched copy
        props = [prop]
        for a in sys.argv:
            if a.startswith("--with="):
                props += [x for x in a[len("--with="):].split(",") if x and x != prop]
        if run_all:
            props = [c["property_id"] for c in json.load(open(os.path.join(V, "MANIFEST.json")))["checks"]]
            props = [prop] + [p for p in props if p != prop]
        outdir = os.path.join(SCRATCH, "mutout-" + name)
        env = dict(ENV, VERIF_REPO=m, VERIF_OUTDIR=outdir)
        checks = {}
        for p in props:
            for tier in (["quick", "thorough"] if (thorough and p == prop) else ["quick"]):
                t0 = time.time()
                rc, out = sh("./check %s %s" % (p, tier), cwd=V, env=env, timeout=7200)
                sigs = [l[len("violation: "):].strip() for l in out.splitlines() if l.startswith("violation: ")]
                checks["%s/%s" % (p, tier)] = {"exit": rc, "signatures": sigs[:8], "wall_s": round(time.time() - t0, 1)}
                if rc not in (0, 1):
                    checks["%s/%s" % (p, tier)]["output_tail"] = out[-1500:]
                if rc == 1 and p == prop:
                    break
        res["checks"] = checks
        res["caught_by"] = sorted(k for k, v in checks.items() if v["exit"] == 1)
        res["caught_by_own_property_quick"] = checks.get(prop + "/quick", {}).get("exit") == 1
    finally:
        shutil.rmtree(m, ignore_errors=True)
        shutil.rmtree(clean, ignore_errors=True)
        shutil.rmtree(os.path.join(SCRATCH, "mutout-" + name), ignore_errors=True)
    return finish(d, res)


def finish(d, res):
    # when run from a snapshot of /verif (vp run), the result goes back to the live tree
    root = os.environ.get("MUTANT_RESULT_ROOT")
    out = os.path.join(root, "seeded", os.path.basename(d)) if root else d
    os.makedirs(out, exist_ok=True)
    json.dump(res, open(os.path.join(out, "result.json"), "w"), indent=1)
    print(json.dumps({k: res.get(k) for k in ("seeded", "property", "patch_applies", "builds", "suite_passes_with_patch",
                                              "demo_fails_with_patch", "demo_passes_without_patch", "caught_by", "error")}, indent=1))
    return 0


if __name__ == "__main__":
    sys.exit(main())
