#!/bin/bash
# sweep: every claimed property x several seeds, quick tier; prints only verdict lines
cd "$(dirname "$0")/.."
SEEDS=${SEEDS:-"1 2 3 4 5"}
PROPS=${PROPS:-$(python3 -c "import json;print(' '.join(c['property_id'] for c in json.load(open('MANIFEST.json'))['checks']))")}
for p in $PROPS; do
  for s in $SEEDS; do
    out=$(VERIF_SEED=$s ./check $p ${TIER:-quick} 2>&1); rc=$?
    echo "$p seed=$s rc=$rc $(echo "$out" | grep '^check' | cut -c1-220)"
    echo "$out" | grep "^violation\|^KNOWN\|CHECK-ERROR\|worker error" | cut -c1-260 | sed 's/^/    /'
  done
done
