#!/usr/bin/env python3
"""Prints the markdown table of DESIGN.md section 11 from seeded/*/meta.json and seeded/*/result.json."""
import glob, json, os, re

V = os.path.dirname(os.path.dirname(os.path.abspath(__file__)))
rows = []
for d in sorted(glob.glob(os.path.join(V, "seeded", "*"))):
    name = os.path.basename(d)
    meta = json.load(open(os.path.join(d, "meta.json")))
    res = {}
    if os.path.exists(os.path.join(d, "result.json")):
        res = json.load(open(os.path.join(d, "result.json")))
    what = re.sub(r"\s+", " ", str(meta.get("what_it_breaks", ""))).strip()
    what = what.replace("|", "/")
    if len(what) > 170:
        what = what[:167].rsplit(" ", 1)[0] + " …"
    files = ",".join(os.path.basename(f) for f in meta.get("files_changed", []))
    ok = "yes" if res.get("suite_passes_with_patch") else ("?" if "suite_passes_with_patch" not in res else "NO")
    demo = "%s / %s" % (res.get("demo_fails_with_patch", "?"), "passes" if res.get("demo_passes_without_patch") else ("fails (see note)" if res.get("demo_passes_without_patch") is False else "?"))
    caught = [c.replace("/quick", "") for c in res.get("caught_by", [])]
    own = meta["property"]
    if own in caught:
        caught.remove(own)
        by = "**%s**" % own + ((", " + ", ".join(caught)) if caught else "")
    else:
        by = ", ".join(caught) if caught else "—"
    note = meta.get("verdict_note", "")
    rows.append("| %s | %s | %s | %s | %s | %s%s |" % (name, files, what, ok, demo, by, (" " + note) if note else ""))
print("| id | file | what the change breaks (sub-agent's words, shortened) | suite passes with it | demonstration fails with / without | caught by (quick tier; own property in bold) |")
print("|---|---|---|---|---|---|")
print("\n".join(rows))
