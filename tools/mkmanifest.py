#!/usr/bin/env python3
"""Regenerates /verif/MANIFEST.json from the table below (kept in one place so it stays valid)."""
import json, os
V = os.path.dirname(os.path.dirname(os.path.abspath(__file__)))
props = [json.loads(l) for l in open(os.path.join(V, "properties.jsonl"))]

TECH = "deterministic simulation with fault injection: seeded scheduler over an instrumented copy in a synctest bubble, "

claimed = {
 "C01": dict(cat="exploration", ref="DESIGN.md §6 C01",
   text="Seeded search over schedules, network delays/fragmentation and (in a separate configuration) connection faults, with 1-3 real library clients x 1-4 concurrent callers against the real server in every mode (json, post-sse, stateless, sessions disabled, legacy SSE, stdio); oracle: each call returns once, a result is computed from the call's own nonce, the handler ran exactly once per nonce, fault-free runs have no failed or unanswered call. Sampling of interleavings, not enumeration.",
   note="Trusted: the simulator stubs for HTTP framing/pipes, the text instrumentation (neutrality-tested against the repository's suite), go1.26.8 synctest. Between yield points code is atomic.",
   tech=TECH+"nonce-correlation and exactly-once oracle"),
 "C09": dict(cat="exploration", ref="DESIGN.md §6 C09",
   text="Seeded search over interleavings of concurrent writers on one stream - stdio server stdout (responses of concurrent requests + server-issued roots/list through the outgoing pump), the legacy SSE stream (event queue, keep-alive ticks straddled by 29.9s/30.1s handlers), the Streamable GET stream (concurrent SendNotification tasks + roots/list) and the stdio client's stdin (requests vs error answers provoked by a scripted server) - with every Write a scheduler point and payloads around 4 KiB/64 KiB containing CR, LF, U+2028/2029. Oracle: the raw bytes are split by reference readers (WHATWG event-stream parser, strict newline splitter) and every frame must be exactly one valid JSON-RPC object, each answer/notification in exactly one frame.",
   note="A single Write call is atomic per pipe end / ResponseWriter (one *os.File per end, write lock); HTTP chunking and TCP segmentation are not modelled (they do not reorder bytes).",
   tech=TECH+"reference-parser oracle over captured byte streams"),
 "C11": dict(cat="exploration", ref="DESIGN.md §6 C11",
   text="Seeded search over open/close/reopen sequences of GET streams of one session by a raw reference peer, interleaved at every lock, channel and write point of the real handleGet with concurrent SendNotification calls. Oracle: a send that runs entirely while one stream owns the session (its headers were received, it was not closed, no open/close in flight) must succeed and be delivered exactly once on that stream's connection; after the dust settles a send succeeds iff a stream is open; an older stream is closed once a newer one exists.",
   note="Ownership is judged from the peer's point of view using the simulator's global step order; delivery is read from the bytes written on each simulated connection.",
   tech=TECH+"stream-ownership oracle with targeted schedules at handleGet's yield points"),
 "C10": dict(cat="exploration", ref="DESIGN.md §6 C10",
   text="Seeded search over numbers (0-6 quick, 0-40 thorough), kinds (progress/log/custom), sizes (0-70 KB), _meta presence and timings (same instant or 1-3 ms apart) of notifications a tool handler emits over POST-SSE, with 1-3 concurrent calls on one real library client, handlers registered for all / some / no methods, JSON and stateless modes, under short reads and delivery delays. Oracle: per call the handler-recorded sequence equals the emitted sequence restricted to registered methods (method, params and _meta after JSON normalisation), nothing arrives after CallTool returned, the result is the call's own, and the id: lines of each SSE stream on the wire are pairwise distinct.",
   note="Notification senders are used from the handler's own goroutine only (concurrent use of one request's sender is not claimed).",
   tech=TECH+"sequence-equality oracle and wire-level event-id uniqueness"),
 "C05": dict(cat="exploration", ref="DESIGN.md §6 C05",
   text="Seeded search over 1-4 sessions (real library clients with notification handlers and roots providers, and raw reference peers), 1-3 concurrent server-side sender tasks issuing SendNotification / BroadcastNotification / SendFilteredNotification with per-send nonces and payloads up to 66 KB, tool handlers issuing ListRoots inside their session, and a forging peer posting answers with guessed request ids from another session; on the Streamable server and (SendNotification, ListRoots) on the legacy SSE server. Oracle on the wire record: exactly-once delivery on the addressed session's stream only, per-sender order, reported counts equal sessions actually reached, ListRoots returns the roots of its own session (never a forged answer), pending tables empty after the drain.",
   note="Liveness part only from a quiescent state (every session's stream open and registered, no fault); sessions whose stream closed during the run are excluded from the must-succeed checks but not from the isolation checks.",
   tech=TECH+"wire-record isolation/accounting oracle with a forging peer"),
 "C08": dict(cat="fault_enumeration", ref="DESIGN.md §6 C08",
   text="Fault enumeration over a recorded pilot run: for each seeded workload (one real client of any kind/mode, handshake + 1-3 concurrent callers with 10 B-70 KB answers) a fault-free pilot records every I/O point (request sent, each server write/flush, each client read incl. EOF, each pipe read/write); the identical run is then repeated with exactly one fault armed at each point - connection reset, cut (unexpected EOF), caller cancellation, network stall until the caller's deadline, kill -9 of the stdio child (quick: <=40 (point,kind) pairs per pilot by stride; thorough: all). Oracle: every call pending at the fault returns; an error comes at the very simulated instant of the fault (at the deadline for a stall); a success carries the complete own answer; after Close and a 25-minute drain no library goroutine except the per-server sweeper is alive, no pending-request entry remains, every response body handed to the library was closed or read to its end, no server handler / stream registration / legacy session outlives its peer.",
   note="Fault positions are message/call boundaries of the simulated transport (byte offsets inside one write are not enumerated; short reads are sampled). Goroutines are tracked through the instrumented go statements, fds and child pids through the simulator's connection/pipe records.",
   tech=TECH+"fault enumeration at every recorded I/O point of a pilot run, promptness and resource-release oracle"),
 "C12": dict(cat="exploration", ref="DESIGN.md §6 C12",
   text="Seeded search over interleavings of 2-5 tasks performing register (unique version per write) / unregister / list / call-read-get on three names per registry (tools, prompts, resources), through the server API and a real client over json, post-sse, stateless, legacy SSE or stdio. The history of invoke/return events stamped with the run's global event sequence (<= ~26 operations) is checked with porcupine v1.3.0 against a sequential model per registry (map name->version, resources with registration order; list = snapshot, call = version or not-found, unregister = error iff nothing removed); Unknown is counted, never reported. In-run invariants: no duplicate or torn list entry, no call failing with anything but not-found, no task blocked on a registry lock at the end.",
   note="Between two yield points code is atomic in the simulator, so a missing lock is invisible here (it is C20's race-mode business); this check decides logical atomicity (two-step updates, stale order slices, handler replacement).",
   tech=TECH+"linearizability of the recorded history against a sequential registry model (porcupine)"),
 "C13": dict(cat="exploration", ref="DESIGN.md §6 C13",
   text="Seeded search over 2-4 concurrent real clients with distinct X-Token headers against Streamable (post-sse, json, stateless) and legacy SSE servers configured with 1-3 HTTP context functions, a middleware, tool/prompt/resource list filters and an echoing handler, every one of which yields to the scheduler so that requests of different clients interleave inside them. Oracle: tokens seen by handler, middleware (before and after) and filters equal the requesting client's token, context functions ran in registration order, the handler sees its own session, server handle and notification sender, an entry hidden by a filter never appears in another token's list while its owner sees it.",
   note="Tokens travel as static client headers; the check is about what user code observes in its context, not about HTTP-level isolation.",
   tech=TECH+"per-request echo oracle"),
 "C15": dict(cat="exploration", ref="DESIGN.md §6 C15",
   text="All 781 middleware chains of length 0-4 over {pass, modify-request, modify-result, short-circuit, fail} are enumerated from the run index (quick covers each at least twice); option form (one WithMiddleware call or repeated), server kind (Streamable post-sse/json/stateless-json, legacy SSE), 1-3 concurrent tools/call requests and a concurrent notification are drawn from the tape, and schedules are sampled. A reference interpreter of the statement predicts the per-request trace (m1-before..handler..m1-after) and the client-visible outcome (handler result with request/result modifications, short-circuit value, or JSON-RPC -32603 with the middleware's message); the instrumented middlewares' traces and what the real client returns must equal it; notifications must bypass the chain; the session seen is the request's own.",
   note="Chains longer than 4 and behaviours outside the five are not covered.",
   tech=TECH+"chain enumeration with a reference interpreter of the onion rule"),
 "C17": dict(cat="fault_enumeration", ref="DESIGN.md §6 C17",
   text="The simulated network plays an outcome script per attempt of one call - connection refused, reset, EOF, i/o timeout after 1-20 s, or a status from {400,401,403,404,405,408,409,413,422,429,500,501,502,503,504,507,511} with varied bodies - of length up to clamp(MaxRetries)+2, ending at the real server (success, or a JSON-RPC error answer for an unregistered tool); configurations are drawn from the boundary grid MaxRetries {-1,0,1,2,3,10,11} x InitialBackoff {0,1ms,100ms,7s,30s,31s} x Factor {0.5,1,1.5,2,10,11} x MaxBackoff {0,50ms,1s,5min,6min}, WithSimpleRetry, or no retry option; the caller's context is cancelled during a wait, exactly at a wait's end, or during an attempt; Streamable and legacy SSE clients. Oracle written from the statement: attempts <= clamp+1; an attempt follows only a failure the statement lists as transient (never a server answer or other 4xx); every wait equals min(Initial x Factor^(k-1), Max) of the clamped configuration exactly on the simulated clock; cancellation returns in zero simulated time with the context's error and no later attempt; Validate is idempotent and lands in the documented ranges; without the option exactly one attempt.",
   note="Scripts are sampled, not exhaustively enumerated (the space of scripts up to length 12 over 21 outcomes is too large); network latency is zero in this scenario so that waits can be compared exactly. Only the only-if direction of the classification is demanded.",
   tech=TECH+"scripted per-attempt network outcomes, exact back-off comparison on the simulated clock"),
 "C04": dict(cat="exploration", ref="DESIGN.md §6 C04",
   text="Raw reference peers (1-4 concurrent actors) execute tape-generated histories over {initialize, request, notification, response-post, GET, stream-close, DELETE} x {no id, own live id, an id known to be deleted, never-issued id, id made by another server instance} against stateful (post-sse, json), stateless and sessions-disabled servers with GET enabled or disabled. An executable reference model (set of live ids + expected outcome class per operation) predicts every status; checked: ids issued only by an id-less initialize, unique, visible ASCII and the hex encoding of >=16 bytes actually drawn from crypto/rand during that initialize (seeded-reader seam), same id echoed on every answer, 400 without id, 404 for unknown/foreign/deleted ids without state change, DELETE ends the session and its GET stream reaches EOF, stateless: no Mcp-Session-Id header anywhere, GET 405, equal answers to equal requests after different prefixes; Server.GetActiveSessions() equals the model's live set after every step (sequential histories) and at the end (concurrent ones).",
   note="Idle gaps stay far below the 1 h expiry so the sweeper never fires (expiry is not part of the statement). Actors only use ids whose state is known to them, so expectations do not depend on the interleaving.",
   tech=TECH+"refinement against an executable reference model of the session state machine"),
 "C06": dict(cat="exploration", ref="DESIGN.md §6 C06",
   text="An adversarial raw peer per server kind/mode (json, post-sse, stateless, sessions disabled, legacy SSE, stdio) sends batches from a systematically enumerated lattice - every field of every valid request x {removed, null, true, 0, -1, 1.5, 2^53+1, '', 'x', [], [1,'a'], {}, {a:1}} - plus garbage (non-JSON, truncated, scalars, 3000-deep nesting, 300 KB request, duplicate keys, batch arrays, unknown methods, responses never asked for) and HTTP-level garbage (verbs, paths, headers, session ids), interleaved by the scheduler with 1-2 well-behaved library clients on the same server. Oracle: no panic in any server goroutine or handler (recorded by the go-statement wrapper and the simulated net/http recovery), no livelock, no lock-blocked task, clearly unservable inputs answered by a 4xx/5xx status or a JSON-RPC error, ping on the same and on a fresh connection afterwards, well-behaved calls all succeed with their own answers, library goroutine count after the batch not above the count before it.",
   note="Coverage-guided fuzzing (named in the quantifier) is another technique and is not claimed. Weaker reading: a message that reads as a response to a request never sent may be accepted (202) as long as nothing happens; ids of odd JSON types and a missing jsonrpc member may be served leniently.",
   tech=TECH+"enumerated field x JSON-type lattice interleaved with well-behaved traffic; panic/deadlock/leak oracle"),
 "C03": dict(cat="exploration", ref="DESIGN.md §6 C03",
   text="1-2 raw reference peers per server kind/mode (all seven, chosen by run index) send batches enumerated from the same field x JSON-type lattice as C06, garbage inputs, and requests whose handlers succeed, fail with a message, return (nil,nil), return a value json.Marshal rejects, or return every content kind; their frames share streams (legacy SSE, stdio) and interleave under the scheduler. Every frame a server emits is parsed by an independent validator written from the JSON-RPC 2.0 / MCP 2025-03-26 schema over generic JSON (no library types): version, id JSON-identical to the request's, exactly one of result/error, integer code, string message, result shape per method (content arrays and item kinds, prompt messages and roles, resource contents, tool descriptors, initialize result), no unknown envelope members; a request must get exactly one answer or a non-2xx status (never an empty 2xx); unknown method -> -32601, missing/ill-typed required parameters -> -32602, unparsable -> -32700/-32600 or 4xx, handler error or unencodable result -> -32603 carrying the message.",
   note="The validator is hand-written in Go from the schema (python jsonschema named in the property's anchors is not used so that the check stays inside one simulated run). Inputs a lenient server may serve or refuse (odd id types, missing jsonrpc member, string name of an unregistered entry) are only checked for well-formed output.",
   tech=TECH+"independent schema validator over every emitted frame; enumerated input lattice and handler outcomes"),
 "C07": dict(cat="exploration", ref="DESIGN.md §6 C07",
   text="A scripted adversarial server (harness code speaking the protocol correctly except where told otherwise) faces each client kind - Streamable with JSON answers, with SSE answers, its GET stream, the legacy SSE client, the stdio client (variant by run index). The first garbage item is enumerated from a 24-item catalogue (raw bytes, non-JSON, scalars, frames of the wrong kind, unknown ids, ids of type object/float/string/null, missing jsonrpc, result+error, blank lines, comments, unknown event types, 64 KiB-1 / 64 KiB+ / 1 MiB frames, a second endpoint event, truncated JSON, deep nesting, BOM, CRLF), 0-2 more are drawn; the tape picks whether they come before, instead of or after the valid answer of one call and whether they also go to the background channel, while another call is pending. Oracle: no panic in any client goroutine, no spinning goroutine (livelock detector: a library task taking 3000 consecutive steps at <=6 sites without simulated time passing), the affected call returns (error or its answer), the pending call and two later calls return their own answers, a well-formed notification sent afterwards reaches its handler exactly once, Close returns.",
   note="A response whose id differs only in JSON type from a pending request's id may be taken for its answer (leniency, not a survival question).",
   tech=TECH+"scripted adversarial server, panic/livelock/liveness oracle"),
 "C16": dict(cat="exploration", ref="DESIGN.md §6 C16",
   text="(a) 1-3 raw peers send initialize with version strings {both supported ones, near misses, a newer date, empty, 'latest', trailing space, full-width digits, '1', 5000 digits} to every server kind/mode (by run index) with every subset of {prompt, resource} registered and, optionally, registrations racing the handshake (stamped on the run's event sequence): answer version = requested if supported else the latest, never an unsupported one; configured name/version; tools capability always; prompts/resources present if registered before the request began, absent if not registered at any instant of it. (b) real clients of all three kinds run tape-generated histories over {one of the six request operations, Initialize, Close, GetState} where the first handshake is sabotaged at each step (refused, reset on initialize, HTTP 500, JSON-RPC error answer, failure of the initialized notification, stall until the deadline; for stdio kill before / after the request): a reference state machine predicts GetState after every step; operations on a non-initialized client must fail with a not-initialized error and the network record / stdin pipe must show no traffic; a second handshake is refused without traffic.",
   note="Operations = the six request operations of the Connector interface. Initialize after Close is only checked for state/outcome consistency (the statement does not say whether it must work).",
   tech=TECH+"reference state machine for the client, negotiation rule for the server, sabotaged handshakes"),
 "C19": dict(cat="exploration", ref="DESIGN.md §6 C19",
   text="All 16 combinations of {static headers, before-request function, custom request handler, custom path} x {Streamable, legacy SSE} are enumerated from the run index; each run drives a history that makes the real client emit every request kind it has - initialize, initialized notification, a tools/call whose handler makes the server issue roots/list on the background stream (so the client posts an answer), roots-changed notification, the GET stream / legacy connect, session DELETE - with a per-operation context value; in 30 % of the runs with a before-request function it fails for one chosen operation. Oracle on the simulated network's record: every request goes to the configured path, through the configured handler, carries every static header value and the issued session id, passed the before-request function exactly once with the calling operation's context value (the handshake's for the stream and the answer to the server request); when the function fails nothing reaches the network and the operation returns that error.",
   note="A custom http.Client (named in the quantifier) is not varied: the simulated network is installed as http.DefaultTransport.",
   tech=TECH+"configuration enumeration over a history that reaches every request-building path, judged on the network record"),
}
NA = {
 "C18": "pure relation between two translators (schema generator vs encoding/json) over types and values: no schedule, clock, fault or interleaving for a simulator to decide (DESIGN.md §7)",
}
WIP = "check not built yet in this framework (work in progress; see DESIGN.md §6 for the planned scenario)"

checks = []
for p in props:
    i = p["id"]
    if i in claimed:
        c = claimed[i]
        checks.append({
            "property_id": i,
            "quick_cmd": "./check %s quick" % i,
            "thorough_cmd": "./check %s thorough" % i,
            "evidence_file": "/verif/evidence/%s.json" % i,
            "replay_cmd_template": "./check replay {path}",
            "engine": "mcpsim",
            "level_claimed": {"category": c["cat"], "text": c["text"], "design_ref": c["ref"]},
            "level_note": c["note"],
            "technique": c["tech"],
        })
na = []
for p in props:
    i = p["id"]
    if i not in claimed:
        na.append({"property_id": i, "reason": NA.get(i, WIP)})
m = {
 "version": 1,
 "setup_cmd": "./check setup",
 "hooks": {
   "guard": "none in /repo: hooks exist only in a scratch copy written by /verif/cmd/yieldify at check time (text rewrites + added package zzsimhook + added file zz_verif_hooks.go); /repo itself is never modified",
   "enable": "./check builds ${VERIF_SCRATCH:-/var/tmp/verif-scratch}/build-<treehash>/repo from /repo's current working tree and compiles the simulator against it with go1.26.8 (-modfile with a replace to the copy)",
   "baseline_off_cmd": "cd /repo && go test -mod=mod -json -vet=off -count=1 -timeout 25m ./...",
   "source_commits": [],
   "add_only": True,
 },
 "engines": [{"name": "mcpsim", "path": "/verif/sim", "serves_properties": sorted(claimed), "kind_free_text": "deterministic whole-system simulator: synctest bubble + seeded one-task-at-a-time scheduler + lock model + simulated HTTP/pipes + choice tape with shrinking"}],
 "checks": checks,
 "not_applicable": na,
 "notes": "All checks share one instrumented build per tree hash. Exit 1 only for an oracle verdict not listed in known_findings.json; exit 2 for build/watchdog/harness trouble.",
}
json.dump(m, open(os.path.join(V, "MANIFEST.json"), "w"), indent=1)
print("MANIFEST.json written:", len(checks), "checks,", len(na), "not claimed")
