#!/usr/bin/env python3
"""tools/import_seeded.py <worktree>/out <PROP>: copy a sub-agent's deliverables (mN/patch.diff, demo_test.go, meta.json)
into seeded/<PROP>-mN/, normalising meta.json (demo_location as a repo-relative directory, demo_run_regex, origin)."""
import json, os, re, shutil, sys

V = os.path.dirname(os.path.dirname(os.path.abspath(__file__)))
src, prop = sys.argv[1], sys.argv[2]
for m in sorted(os.listdir(src)):
    d = os.path.join(src, m)
    if not (os.path.isdir(d) and os.path.exists(os.path.join(d, "patch.diff"))):
        continue
    dst = os.path.join(V, "seeded", "%s-%s" % (prop, m))
    os.makedirs(dst, exist_ok=True)
    shutil.copy(os.path.join(d, "patch.diff"), dst)
    demos = [f for f in os.listdir(d) if f.endswith("_test.go")]
    if demos:
        shutil.copy(os.path.join(d, demos[0]), os.path.join(dst, "demo_test.go"))
    meta = json.load(open(os.path.join(d, "meta.json")))
    meta["property"] = prop
    loc = str(meta.get("demo_location", "."))
    meta["agent_demo_location"] = loc
    mm = re.search(r"\b(e2e(?:/[a-z_]+)?|internal/[a-z_/]+|examples/[a-z_/]+)\b", loc.split("(")[0])
    meta["demo_location"] = mm.group(1) if mm else "."
    text = open(os.path.join(dst, "demo_test.go")).read() if demos else ""
    tests = re.findall(r"^func (Test\w+)\(", text, re.M)
    if tests:
        meta["demo_run_regex"] = "^(" + "|".join(tests) + ")$"
    if "-race" in json.dumps(meta.get("commands_run", "")) and meta.get("demo_needs_race") is None:
        meta["demo_needs_race"] = "maybe: see commands_run"
    meta["origin"] = "written by an independent sub-agent that was given only the property text and a scratch worktree of /repo"
    json.dump(meta, open(os.path.join(dst, "meta.json"), "w"), indent=1)
    print("imported", dst, "demo_location=", meta["demo_location"], "tests=", tests)
