#!/bin/bash
# full confirmation of every seeded change (tools/mutant.py --all), P at a time; results in seeded/*/result.json
cd "$(dirname "$0")/.."
P=${P:-4}
ls -d ${@:-seeded/*/} | sed 's,/$,,' | xargs -P $P -I{} sh -c 'python3 tools/mutant.py {} ${MUTANT_ARGS:---all} > /dev/null 2>&1; python3 - {} <<PY
import json,sys
import os
root=os.environ.get("MUTANT_RESULT_ROOT")
r=json.load(open((os.path.join(root,"seeded",os.path.basename(sys.argv[1])) if root else sys.argv[1])+"/result.json"))
print(r["seeded"], "suite_ok=%s demo_fail=%s demo_clean_ok=%s own_quick=%s caught_by=%s" % (r.get("suite_passes_with_patch"), r.get("demo_fails_with_patch"), r.get("demo_passes_without_patch"), r.get("caught_by_own_property_quick"), ",".join(r.get("caught_by") or [])), r.get("error","")[:200])
PY'
