#!/bin/bash
# tools/mutother.sh <seeded-dir> <PROP>...: run the quick checks of other properties against a seeded change
cd "$(dirname "$0")/.."
d=$1; shift
name=$(basename $d)
M=/var/tmp/verif-scratch/mo-$name; rm -rf $M; mkdir -p $M; rsync -a --exclude .git /repo/ $M/
if ! (cd $M && git apply --whitespace=nowarn $OLDPWD/$d/patch.diff 2>/dev/null); then echo "$name: PATCH DOES NOT APPLY"; rm -rf $M; exit 1; fi
for prop in "$@"; do
  out=$(VERIF_OUTDIR=$M.out VERIF_REPO=$M ./check $prop ${TIER:-quick} 2>&1); rc=$?
  echo "$name vs $prop rc=$rc $(echo "$out" | grep '^check' | cut -c1-90)"
  echo "$out" | grep "^violation\|CHECK-ERROR" | cut -c1-200 | head -3 | sed 's/^/     /'
done
rm -rf $M $M.out
