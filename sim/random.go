package sim

import (
	crand "crypto/rand"
	"io"

	"github.com/google/uuid"
)

// seededReader is the deterministic stand-in for the system CSPRNG.  It also counts the bytes
// drawn, which is how C04 checks that session ids really come from crypto/rand.
type seededReader struct {
	mu    quietMutex
	x     uint64
	Drawn int64
	Log   [][]byte
}

//go:norace
func (r *seededReader) Read(p []byte) (int, error) {
	r.mu.Lock()
	defer r.mu.Unlock()
	for i := range p {
		if i%8 == 0 {
			_ = splitmix(&r.x)
		}
		p[i] = byte(splitmix(&r.x) >> 17)
	}
	r.Drawn += int64(len(p))
	if len(r.Log) < 4096 {
		r.Log = append(r.Log, append([]byte(nil), p...))
	}
	return len(p), nil
}

var origRandReader io.Reader = crand.Reader

// CurrentRand is the seeded reader of the run in progress.
var CurrentRand *seededReader

func seedRandom(t *Tape) {
	r := &seededReader{x: uint64(t.Draw(1<<30)) + 1}
	CurrentRand = r
	crand.Reader = r
	uuid.SetRand(r)
}

// RandDrawn returns how many bytes were drawn from the (simulated) system CSPRNG so far and the
// draws themselves.
//
//go:norace
func RandDrawn() (int64, [][]byte) {
	r := CurrentRand
	r.mu.Lock()
	defer r.mu.Unlock()
	return r.Drawn, append([][]byte(nil), r.Log...)
}
