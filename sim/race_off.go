//go:build !race

package sim

// RaceMode reports whether the binary was built with the race detector.
const RaceMode = false

func raceDisable() {}
func raceEnable()  {}
