//go:build race

package sim

import "runtime"

// RaceMode reports whether the binary was built with the race detector.
const RaceMode = true

//go:norace
func raceDisable() { runtime.RaceDisable() }

//go:norace
func raceEnable() { runtime.RaceEnable() }
