package sim

import (
	"fmt"
	"io"
	"os"
	"sync"
	"syscall"
)

// Pipe is a simulated unidirectional OS pipe: reliable, FIFO, no duplication.  Every Write and every
// Read that finds data is a scheduler point; reads may be short.
type Pipe struct {
	s    *Sim
	Name string
	mu   sync.Mutex

	buf     []byte // everything ever written (kept for the oracles)
	Writes  []int  // offsets after each Write
	readOff int
	wClosed bool
	rClosed bool
	notify  chan struct{}

	ShortRead int // weight of short reads
	WriteErr  int // weight of an injected write error (EPIPE without the reader being gone)
}

// NewPipe creates a pipe.
func (s *Sim) NewPipe(name string) *Pipe {
	return &Pipe{s: s, Name: name, notify: make(chan struct{})}
}

func (p *Pipe) broadcast() {
	close(p.notify)
	p.notify = make(chan struct{})
}

// Bytes returns everything written so far.
func (p *Pipe) Bytes() []byte {
	p.mu.Lock()
	defer p.mu.Unlock()
	return append([]byte(nil), p.buf...)
}

// WriteBoundaries returns the offsets after each Write call.
func (p *Pipe) WriteBoundaries() []int {
	p.mu.Lock()
	defer p.mu.Unlock()
	return append([]int(nil), p.Writes...)
}

// Unread reports how many written bytes have not been read.
func (p *Pipe) Unread() int {
	p.mu.Lock()
	defer p.mu.Unlock()
	return len(p.buf) - p.readOff
}

type pipeWriter struct{ p *Pipe }
type pipeReader struct{ p *Pipe }

// Writer returns the write end.
func (p *Pipe) Writer() io.WriteCloser { return pipeWriter{p} }

// Reader returns the read end.
func (p *Pipe) Reader() io.ReadCloser { return pipeReader{p} }

// Write appends b in one piece.  One Write call is atomic with respect to other Write calls on
// the same end: all writers of an end live in one process and go through one *os.File, whose
// Write holds the descriptor's write lock until every byte is written.  (Interleaving between
// *separate* Write calls - payload, then newline - is exactly what the scheduler explores.)
func (w pipeWriter) Write(b []byte) (int, error) {
	p := w.p
	s := p.s
	if !s.dead.Load() {
		s.IOPoint(fmt.Sprintf("pipe.write %s +%d", p.Name, len(b)), nil, p)
	}
	p.mu.Lock()
	defer p.mu.Unlock()
	if p.wClosed {
		return 0, os.ErrClosed
	}
	if p.rClosed {
		return 0, &os.PathError{Op: "write", Path: "|1", Err: syscall.EPIPE}
	}
	p.buf = append(p.buf, b...)
	p.Writes = append(p.Writes, len(p.buf))
	p.broadcast()
	if len(b) > 0 && !s.dead.Load() {
		s.Progress()
	}
	return len(b), nil
}

func (w pipeWriter) Close() error {
	p := w.p
	p.mu.Lock()
	defer p.mu.Unlock()
	if p.wClosed {
		return os.ErrClosed
	}
	p.wClosed = true
	p.broadcast()
	return nil
}

func (r pipeReader) Read(b []byte) (int, error) {
	p := r.p
	s := p.s
	if len(b) == 0 {
		return 0, nil
	}
	for {
		p.mu.Lock()
		if p.rClosed {
			p.mu.Unlock()
			return 0, &os.PathError{Op: "read", Path: "|0", Err: os.ErrClosed}
		}
		if len(p.buf)-p.readOff > 0 {
			p.mu.Unlock()
			d := 0
			if !s.dead.Load() {
				d = s.IOPoint(fmt.Sprintf("pipe.read %s", p.Name), []int{100, p.ShortRead, p.ShortRead}, p)
			}
			p.mu.Lock()
			if p.rClosed {
				p.mu.Unlock()
				return 0, &os.PathError{Op: "read", Path: "|0", Err: os.ErrClosed}
			}
			n := len(p.buf) - p.readOff
			if n > len(b) {
				n = len(b)
			}
			switch d {
			case 1:
				n = 1
				s.Fault("pipe.short_read")
			case 2:
				if n > 1 {
					n = 1 + s.Tape.Draw(n-1)
				}
				s.Fault("pipe.short_read")
			}
			copy(b, p.buf[p.readOff:p.readOff+n])
			p.readOff += n
			p.mu.Unlock()
			if !s.dead.Load() {
				s.Progress()
			}
			return n, nil
		}
		if p.wClosed {
			p.mu.Unlock()
			if !s.dead.Load() {
				s.Yield(fmt.Sprintf("pipe.read#eof %s", p.Name))
			}
			return 0, io.EOF
		}
		ch := p.notify
		p.mu.Unlock()
		if s.dead.Load() {
			return 0, io.EOF
		}
		<-ch
		s.Yield(fmt.Sprintf("pipe.read#woke %s", p.Name))
	}
}

func (r pipeReader) Close() error {
	p := r.p
	p.mu.Lock()
	defer p.mu.Unlock()
	if p.rClosed {
		return os.ErrClosed
	}
	p.rClosed = true
	p.broadcast()
	return nil
}

// KillBoth closes both ends (the owning process died).
func (p *Pipe) KillWriter() {
	p.mu.Lock()
	if !p.wClosed {
		p.wClosed = true
		p.broadcast()
	}
	p.mu.Unlock()
}

// KillReader marks the read end as gone (writes fail with EPIPE).
func (p *Pipe) KillReader() {
	p.mu.Lock()
	if !p.rClosed {
		p.rClosed = true
		p.broadcast()
	}
	p.mu.Unlock()
}

// GoLib starts fn as a task that counts as a library goroutine (used by the stdio attach hook,
// which starts the library's own reader loops).
func (s *Sim) GoLib(name string, fn func()) *Task {
	parent := s.currentTask()
	return s.spawn(parent.Name+">"+name, true, fn)
}
