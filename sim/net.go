package sim

import (
	"bytes"
	"context"
	"errors"
	"fmt"
	"io"
	"net"
	"net/http"
	"os"
	"runtime/debug"
	"strings"
	"sync"
	"sync/atomic"
	"syscall"
	"time"
)

// NetFaults are the per-run weights (out of ~100) of network faults; zero value = no faults.
type NetFaults struct {
	Refuse    int // connection refused
	ResetConn int // reset before any response byte
	EOFConn   int // server closes without answering
	Timeout   int // i/o timeout after a delay
	Delay     int // request delivered after a random delay
	ResetMid  int // reset while the response is being written (at a server Write)
	CutMid    int // connection cut (unexpected EOF for the client) at a server Write
	ShortRead int // client reads get fewer bytes than available
}

// Outcome is a scripted network-level outcome for one request.
type Outcome struct {
	Kind   string // "", "refuse", "reset", "eof", "timeout", "status"
	Status int    // for Kind "status": answer with this status without reaching the server
	Body   string
	Delay  time.Duration
}

// Conn is the record of one HTTP exchange (one simulated connection).
type Conn struct {
	ID        int
	Method    string
	Host      string
	Path      string
	Query     string
	ReqHeader http.Header
	ReqBody   []byte
	Client    string // name of the task that sent the request
	SentAt    time.Duration
	SentStep  int

	n  *Net
	mu sync.Mutex

	Status      int
	RespHeader  http.Header
	buf         []byte
	Writes      []int // offsets in buf after each Write
	flushed     int
	readOff     int
	wroteHeader bool
	headersSent bool
	serverDone  bool
	serverErr   error // error the client sees instead of further data
	clientGone  bool
	notify      chan struct{}
	srvCancel   context.CancelFunc
	reqCtx      context.Context
	finished    chan struct{}
	writeLimit  int // >0: the peer does not read; server writes block once this many bytes are buffered
	writeDL     time.Time // write deadline set through http.ResponseController (zero = none)

	// observations
	Outcome       string // network-level outcome ("", refuse, reset, ...)
	BodyClosed    bool   // client called Body.Close
	ReadToEOF     bool   // client saw io.EOF
	ReadErr       string
	HandlerPanic  string
	Reached       bool // request reached the server handler
	Handed        bool // a response (headers + body) was handed to the client
	HeadersAtStep int
	// TruncatedByDeadline: the handler returned with an expired write deadline (the response could
	// not be ended in order)
	TruncatedByDeadline bool
}

// Net is the simulated network.
type Net struct {
	s      *Sim
	mu     quietMutex
	hosts  map[string]http.Handler
	conns  []*Conn
	Faults NetFaults
	Script func(c *Conn) *Outcome // consulted first; nil result = no script for this request
	// NoWriterContract: the servers of this run are harness scripts (C07, C16), not the library;
	// their use of the ResponseWriter is not recorded as a library incident
	NoWriterContract bool
	OnConn           func(c *Conn) // called when an exchange starts (before delivery)
	OnWrite          func(c *Conn, p []byte)

	stallMu    sync.Mutex
	stallCh    chan struct{}
	stallUntil time.Duration
}

// Stall makes the network stop delivering for d of simulated time (or until Unstall): requests are
// not delivered and server-side writes do not complete.
func (n *Net) Stall(d time.Duration) {
	n.stallMu.Lock()
	defer n.stallMu.Unlock()
	if n.stallCh == nil {
		n.stallCh = make(chan struct{})
		n.stallUntil = n.s.Now() + d
	}
}

// Unstall ends a stall.
func (n *Net) Unstall() {
	n.stallMu.Lock()
	defer n.stallMu.Unlock()
	if n.stallCh != nil {
		close(n.stallCh)
		n.stallCh = nil
	}
}

// waitStall blocks the calling task while the network is stalled (or until ctx ends, if given).
func (n *Net) waitStall(ctx context.Context) {
	n.stallMu.Lock()
	ch, until := n.stallCh, n.stallUntil
	n.stallMu.Unlock()
	if ch == nil || n.s.dead.Load() {
		return
	}
	d := until - n.s.Now()
	if d <= 0 {
		return
	}
	tm := time.NewTimer(d)
	defer tm.Stop()
	var done <-chan struct{}
	if ctx != nil {
		done = ctx.Done()
	}
	select {
	case <-ch:
	case <-tm.C:
	case <-done:
	}
	n.s.Yield("net.stall#over")
}

func newNet(s *Sim) *Net {
	n := &Net{s: s, hosts: map[string]http.Handler{}}
	return n
}

// Serve registers handler under host (e.g. "srv1").
//
//go:norace
func (n *Net) Serve(host string, h http.Handler) {
	n.mu.Lock()
	n.hosts[host] = h
	n.mu.Unlock()
}

// Unserve removes a host (subsequent requests are refused).
//
//go:norace
func (n *Net) Unserve(host string) {
	n.mu.Lock()
	delete(n.hosts, host)
	n.mu.Unlock()
}

// register adds the exchange to the record and looks the host up.
//
//go:norace
func (n *Net) register(c *Conn, host string) http.Handler {
	n.mu.Lock()
	c.ID = len(n.conns)
	n.conns = append(n.conns, c)
	h := n.hosts[host]
	n.mu.Unlock()
	n.s.mu.Lock()
	c.SentStep = n.s.step
	n.s.mu.Unlock()
	return h
}

// Conns returns the exchanges so far.
//
//go:norace
func (n *Net) Conns() []*Conn {
	n.mu.Lock()
	defer n.mu.Unlock()
	return append([]*Conn(nil), n.conns...)
}

func (n *Net) abandon() {}

type timeoutErr struct{}

func (timeoutErr) Error() string   { return "i/o timeout" }
func (timeoutErr) Timeout() bool   { return true }
func (timeoutErr) Temporary() bool { return true }

func addrOf(host string) net.Addr {
	return &net.TCPAddr{IP: net.IPv4(10, 0, 0, 1), Port: 80}
}

func netErr(kind, host string) error {
	switch kind {
	case "refuse":
		return &net.OpError{Op: "dial", Net: "tcp", Addr: addrOf(host), Err: os.NewSyscallError("connect", syscall.ECONNREFUSED)}
	case "reset":
		return &net.OpError{Op: "read", Net: "tcp", Source: &net.TCPAddr{IP: net.IPv4(10, 0, 0, 2), Port: 40000}, Addr: addrOf(host), Err: os.NewSyscallError("read", syscall.ECONNRESET)}
	case "eof":
		return io.EOF
	case "timeout":
		return &net.OpError{Op: "dial", Net: "tcp", Addr: addrOf(host), Err: timeoutErr{}}
	}
	return errors.New(kind)
}

// transport is what http.DefaultTransport is replaced with.
type transport struct{}

func (transport) RoundTrip(req *http.Request) (*http.Response, error) {
	s := current.Load()
	if s == nil || s.dead.Load() {
		return nil, netErr("refuse", req.URL.Host)
	}
	return s.Net.RoundTrip(req)
}

func init() {
	http.DefaultTransport = transport{}
}

// Client returns an http.Client on the simulated network (for raw peers).
func (n *Net) Client() *http.Client { return &http.Client{Transport: transport{}} }

func (c *Conn) broadcast() {
	close(c.notify)
	c.notify = make(chan struct{})
}

// RoundTrip performs one exchange on the simulated network.
func (n *Net) RoundTrip(req *http.Request) (*http.Response, error) {
	s := n.s
	var body []byte
	if req.Body != nil {
		b, err := io.ReadAll(req.Body)
		req.Body.Close()
		if err != nil {
			return nil, err
		}
		body = b
	}
	if err := req.Context().Err(); err != nil {
		return nil, err
	}
	me := s.currentTask()
	c := &Conn{
		Method: req.Method, Host: req.URL.Host, Path: req.URL.Path, Query: req.URL.RawQuery,
		ReqHeader: req.Header.Clone(), ReqBody: body, Client: me.Name, n: n,
		notify: make(chan struct{}), finished: make(chan struct{}), SentAt: s.Now(),
	}
	h := n.register(c, req.URL.Host)
	if n.OnConn != nil {
		n.OnConn(c)
	}

	var out *Outcome
	if n.Script != nil {
		out = n.Script(c)
	}
	if out == nil {
		f := n.Faults
		w := []int{100, f.Refuse, f.ResetConn, f.EOFConn, f.Timeout, f.Delay}
		d := s.IOPoint(fmt.Sprintf("net.send c%d %s %s", c.ID, req.Method, req.URL.Path), w, c)
		switch d {
		case 1:
			out = &Outcome{Kind: "refuse"}
		case 2:
			out = &Outcome{Kind: "reset"}
		case 3:
			out = &Outcome{Kind: "eof"}
		case 4:
			out = &Outcome{Kind: "timeout", Delay: time.Duration(1+s.Tape.Draw(30)) * time.Second}
		case 5:
			out = &Outcome{Delay: []time.Duration{time.Millisecond, 20 * time.Millisecond, 300 * time.Millisecond, 2 * time.Second}[s.Tape.Draw(4)]}
			s.Fault("net.delay")
		}
	} else {
		s.Yield(fmt.Sprintf("net.send c%d %s %s (scripted %s)", c.ID, req.Method, req.URL.Path, out.Kind))
	}
	if out != nil && out.Delay > 0 {
		tm := time.NewTimer(out.Delay)
		select {
		case <-tm.C:
		case <-req.Context().Done():
		}
		tm.Stop()
		// park first, look afterwards: a goroutine woken by a real channel operation runs in
		// parallel with the released task (and with other goroutines woken at the same instant),
		// so whatever it reads before it is itself the released task depends on real timing
		s.Yield("net.delay#woke")
		// fixed priority (never Go's random choice among ready cases): cancellation first
		if err := req.Context().Err(); err != nil {
			c.Outcome = "cancelled"
			return nil, err
		}
	}
	n.waitStall(req.Context())
	if err := req.Context().Err(); err != nil {
		c.Outcome = "cancelled"
		return nil, err
	}
	if h == nil && (out == nil || out.Kind == "") {
		out = &Outcome{Kind: "refuse"}
	}
	if out != nil && out.Kind != "" {
		c.Outcome = out.Kind
		s.Fault("net." + out.Kind)
		if out.Kind == "status" {
			c.Status = out.Status
			hdr := http.Header{"Content-Type": {"text/plain; charset=utf-8"}}
			c.RespHeader = hdr
			c.buf = []byte(out.Body)
			c.flushed = len(c.buf)
			c.serverDone = true
			c.headersSent = true
			return n.response(req, c), nil
		}
		return nil, netErr(out.Kind, req.URL.Host)
	}

	// an armed fault may have torn the connection down at the send point: nothing is delivered
	c.mu.Lock()
	killed := c.serverErr
	c.mu.Unlock()
	if killed != nil {
		c.Outcome = "reset"
		s.Fault("net.reset")
		return nil, killed
	}
	// deliver to the server
	srvCtx, cancel := context.WithCancel(context.Background())
	c.srvCancel = cancel
	c.reqCtx = req.Context()
	u := *req.URL
	sreq, err := http.NewRequestWithContext(srvCtx, req.Method, u.String(), bytes.NewReader(body))
	if err != nil {
		return nil, err
	}
	sreq.Header = req.Header.Clone()
	sreq.Host = req.URL.Host
	sreq.RequestURI = u.RequestURI()
	sreq.RemoteAddr = fmt.Sprintf("10.0.0.2:%d", 40000+c.ID)
	sreq.ContentLength = int64(len(body))
	c.Reached = true
	w := &respWriter{c: c, hdr: http.Header{}}
	s.Go(fmt.Sprintf("net/c%d/h", c.ID), func() {
		defer func() {
			if r := recover(); r != nil {
				if r == http.ErrAbortHandler {
					r = "http.ErrAbortHandler"
				}
				c.mu.Lock()
				c.HandlerPanic = fmt.Sprintf("%v\n%s", r, trimStack(string(debug.Stack())))
				if c.serverErr == nil {
					if c.headersSent {
						c.serverErr = io.ErrUnexpectedEOF
					} else {
						c.serverErr = io.EOF
					}
				}
				c.serverDone = true
				c.broadcast()
				c.mu.Unlock()
				s.addLibEvent(fmt.Sprintf("handler panic in %s [c%d %s %s]: %v", TopLibFrame(c.HandlerPanic), c.ID, c.Method, c.Path, r))
				cancel()
				close(c.finished)
			}
		}()
		h.ServeHTTP(w, sreq)
		w.handlerReturned()
		w.finish()
		cancel()
		close(c.finished)
	})
	// watch the client's request context: cancelling it tears the connection down
	if req.Context().Done() != nil {
		s.Go(fmt.Sprintf("net/c%d/w", c.ID), func() {
			select {
			case <-req.Context().Done():
			case <-c.finished:
			}
			// park first, look afterwards (see the delay above); then fixed priority: a finished
			// exchange needs no teardown
			s.Yield("net.ctxwatch#woke")
			select {
			case <-c.finished:
				return
			default:
			}
			if req.Context().Err() == nil {
				return
			}
			c.clientAbort()
		})
	}
	// wait for the response headers
	for {
		c.mu.Lock()
		if err := req.Context().Err(); err != nil && !c.Handed {
			// the transport's wait selects between the context and the response; once the context
			// is done the error is a legal outcome, and a response that only exists *because* the
			// cancellation made the handler return can never reach a real client
			c.mu.Unlock()
			s.Yield("net.headers#cancelled")
			c.clientAbort()
			return nil, err
		}
		if c.headersSent {
			c.mu.Unlock()
			break
		}
		if c.serverErr != nil {
			err := c.serverErr
			c.mu.Unlock()
			s.Yield("net.headers#err")
			if err == io.EOF || err == io.ErrUnexpectedEOF {
				return nil, netErr("eof", req.URL.Host)
			}
			return nil, err
		}
		if err := req.Context().Err(); err != nil {
			c.mu.Unlock()
			s.Yield("net.headers#cancelled")
			c.clientAbort()
			return nil, err
		}
		ch := c.notify
		c.mu.Unlock()
		select {
		case <-ch:
		case <-req.Context().Done():
		}
		s.Yield(fmt.Sprintf("net.headers#woke c%d", c.ID))
	}
	c.HeadersAtStep = s.StepNow()
	return n.response(req, c), nil
}

func (n *Net) response(req *http.Request, c *Conn) *http.Response {
	c.mu.Lock()
	c.Handed = true
	c.mu.Unlock()
	return &http.Response{
		Status:        fmt.Sprintf("%d %s", c.Status, http.StatusText(c.Status)),
		StatusCode:    c.Status,
		Proto:         "HTTP/1.1",
		ProtoMajor:    1,
		ProtoMinor:    1,
		Header:        c.RespHeader.Clone(),
		Body:          &respBody{c: c, ctx: req.Context()},
		ContentLength: -1,
		Request:       req,
	}
}

// clientAbort: the client side of the connection went away.
func (c *Conn) clientAbort() {
	c.mu.Lock()
	c.clientGone = true
	c.broadcast()
	cancel := c.srvCancel
	c.mu.Unlock()
	if cancel != nil {
		cancel()
	}
}

// Kill tears the connection down from the network side (reset): the client sees a read error,
// the server sees its context cancelled and write errors.
func (c *Conn) Kill(kind string) {
	c.mu.Lock()
	if c.serverErr == nil && !c.serverDone {
		if kind == "reset" {
			c.serverErr = netErr("reset", c.Host)
		} else {
			c.serverErr = io.ErrUnexpectedEOF
		}
	}
	c.clientGone = true
	c.broadcast()
	cancel := c.srvCancel
	c.mu.Unlock()
	if cancel != nil {
		cancel()
	}
}

// StopReading makes the client side of the connection a stalled consumer: it stops draining the
// connection, so that (as with full socket buffers) the server's writes block once limit bytes are
// in flight - until the connection is killed or ResumeReading is called.
func (c *Conn) StopReading(limit int) {
	c.mu.Lock()
	c.writeLimit = limit
	c.mu.Unlock()
}

// ResumeReading ends StopReading.
func (c *Conn) ResumeReading() {
	c.mu.Lock()
	c.writeLimit = 0
	c.broadcast()
	c.mu.Unlock()
}

// Bytes returns everything the server wrote on this exchange so far.
func (c *Conn) Bytes() []byte {
	c.mu.Lock()
	defer c.mu.Unlock()
	return append([]byte(nil), c.buf...)
}

// Done reports whether the server handler has returned.
func (c *Conn) Done() bool {
	c.mu.Lock()
	defer c.mu.Unlock()
	return c.serverDone
}

// ---- server side ---------------------------------------------------------------------------------

type respWriter struct {
	c        *Conn
	hdr      http.Header
	inCall   int32 // >0 while a Write or Flush is in progress (they contain scheduler points)
	returned int32 // 1 once ServeHTTP has returned: net/http forbids any further use of the writer
}

// handlerReturned marks the end of ServeHTTP.  net/http then finishes the response (flushes and
// recycles the bufio.Writer, may reuse the connection): a Write or Flush that is still in progress
// on another goroutine, or that starts later, races with that in a real server.
func (w *respWriter) handlerReturned() {
	atomic.StoreInt32(&w.returned, 1)
	if atomic.LoadInt32(&w.inCall) > 0 && !w.c.n.NoWriterContract {
		w.c.n.s.addLibEvent(fmt.Sprintf("http.ResponseWriter used after the handler returned: the handler of c%d %s %s returned while a Write/Flush by another goroutine was in progress", w.c.ID, w.c.Method, w.c.Path))
	}
}

// enter/leave detect concurrent use of one ResponseWriter: net/http's is not safe for concurrent
// Write/Flush (they share one bufio.Writer), so two calls overlapping in time are a data race in a
// real server even though the simulated writer itself would survive it.
func (w *respWriter) enter(what string) {
	if atomic.LoadInt32(&w.returned) != 0 && !w.c.n.s.dead.Load() && !w.c.n.NoWriterContract {
		w.c.n.s.addLibEvent(fmt.Sprintf("http.ResponseWriter used after the handler returned: %s on c%d %s %s [%s]", what, w.c.ID, w.c.Method, w.c.Path, TopLibFrame(string(debug.Stack()))))
	}
	if atomic.AddInt32(&w.inCall, 1) > 1 && !w.c.n.NoWriterContract {
		w.c.n.s.addLibEvent(fmt.Sprintf("concurrent use of http.ResponseWriter: %s entered while another Write/Flush on c%d %s %s is in progress", what, w.c.ID, w.c.Method, w.c.Path))
	}
}

func (w *respWriter) leave() { atomic.AddInt32(&w.inCall, -1) }

func (w *respWriter) Header() http.Header { return w.hdr }

// SetWriteDeadline is what http.ResponseController finds: a write blocked by a peer that does not
// read fails once the deadline has passed (as net.Conn.SetWriteDeadline does for a real server).
func (w *respWriter) SetWriteDeadline(t time.Time) error {
	c := w.c
	c.mu.Lock()
	c.writeDL = t
	c.broadcast()
	c.mu.Unlock()
	if d := time.Until(t); !t.IsZero() && d > 0 {
		time.AfterFunc(d, func() {
			c.mu.Lock()
			c.broadcast()
			c.mu.Unlock()
		})
	}
	return nil
}

func (w *respWriter) WriteHeader(code int) {
	c := w.c
	c.mu.Lock()
	defer c.mu.Unlock()
	if c.wroteHeader {
		return
	}
	c.wroteHeader = true
	c.Status = code
	c.RespHeader = w.hdr.Clone()
}

func (w *respWriter) Write(p []byte) (int, error) {
	w.enter("Write")
	defer w.leave()
	c := w.c
	s := c.n.s
	c.mu.Lock()
	if !c.wroteHeader {
		c.wroteHeader = true
		c.Status = 200
		c.RespHeader = w.hdr.Clone()
	}
	if !c.headersSent && len(c.buf) == 0 && len(p) > 0 && c.RespHeader.Get("Content-Type") == "" {
		// net/http sniffs the first bytes written before the header goes out, with or without an
		// explicit WriteHeader
		c.RespHeader.Set("Content-Type", http.DetectContentType(p))
	}
	c.mu.Unlock()
	f := c.n.Faults
	d := 0
	if !s.dead.Load() {
		d = s.IOPoint(fmt.Sprintf("net.write c%d +%d", c.ID, len(p)), []int{1000, f.ResetMid, f.CutMid}, c)
	}
	c.n.waitStall(nil)
	// back-pressure of a peer that does not read
	for {
		c.mu.Lock()
		if c.writeLimit == 0 || len(c.buf) < c.writeLimit || c.clientGone || s.dead.Load() {
			c.mu.Unlock()
			break
		}
		if !c.writeDL.IsZero() && !time.Now().Before(c.writeDL) {
			c.mu.Unlock()
			s.Fault("net.write_deadline")
			return 0, &net.OpError{Op: "write", Net: "tcp", Addr: addrOf(c.Host), Err: os.ErrDeadlineExceeded}
		}
		ch := c.notify
		c.mu.Unlock()
		s.Fault("net.write_blocked")
		<-ch
		s.Yield(fmt.Sprintf("net.write#unblocked c%d", c.ID))
	}
	switch d {
	case 1:
		s.Fault("net.reset_mid")
		c.Kill("reset")
	case 2:
		s.Fault("net.cut_mid")
		c.Kill("cut")
	}
	c.mu.Lock()
	if c.clientGone {
		c.mu.Unlock()
		return 0, &net.OpError{Op: "write", Net: "tcp", Addr: addrOf(c.Host), Err: os.NewSyscallError("write", syscall.EPIPE)}
	}
	c.buf = append(c.buf, p...)
	c.Writes = append(c.Writes, len(c.buf))
	if len(p) > 0 {
		s.Progress()
	}
	if len(c.buf)-c.flushed > 4096 {
		c.headersSent = true
		c.flushed = len(c.buf)
		c.broadcast()
	}
	c.mu.Unlock()
	if c.n.OnWrite != nil {
		c.n.OnWrite(c, p)
	}
	return len(p), nil
}

func (w *respWriter) Flush() {
	w.enter("Flush")
	defer w.leave()
	c := w.c
	s := c.n.s
	if !s.dead.Load() {
		s.IOPoint(fmt.Sprintf("net.flush c%d", c.ID), nil, c)
	}
	c.n.waitStall(nil)
	c.mu.Lock()
	if !c.wroteHeader {
		c.wroteHeader = true
		c.Status = 200
		c.RespHeader = w.hdr.Clone()
	}
	if !c.clientGone {
		c.headersSent = true
		c.flushed = len(c.buf)
		c.broadcast()
	}
	c.mu.Unlock()
}

func (w *respWriter) finish() {
	c := w.c
	c.mu.Lock()
	if !c.wroteHeader {
		c.wroteHeader = true
		c.Status = 200
		c.RespHeader = w.hdr.Clone()
	}
	c.headersSent = true
	c.flushed = len(c.buf)
	c.serverDone = true
	if !c.writeDL.IsZero() && !time.Now().Before(c.writeDL) && c.serverErr == nil {
		// the handler left an expired write deadline behind: net/http cannot write the end of the
		// response (last chunk) any more and tears the connection down - the client sees a
		// truncated body instead of a clean end
		c.serverErr = io.ErrUnexpectedEOF
		c.TruncatedByDeadline = true
	}
	trunc := c.TruncatedByDeadline
	c.broadcast()
	c.mu.Unlock()
	if trunc && !c.n.NoWriterContract {
		c.n.s.addLibEvent(fmt.Sprintf("response truncated: the handler of c%d %s %s returned with an expired write deadline, the response cannot be ended in order (the client sees an unexpected EOF)", c.ID, c.Method, c.Path))
	}
}

// ---- client side ---------------------------------------------------------------------------------

func isCleanClose(err error) bool { return err == io.ErrUnexpectedEOF || err == io.EOF }

type respBody struct {
	c   *Conn
	ctx context.Context
}

func (b *respBody) Read(p []byte) (int, error) {
	c := b.c
	s := c.n.s
	if len(p) == 0 {
		return 0, nil
	}
	for {
		c.mu.Lock()
		if c.BodyClosed {
			c.mu.Unlock()
			return 0, errors.New("http: read on closed response body")
		}
		if err := b.ctx.Err(); err != nil {
			c.ReadErr = err.Error()
			c.mu.Unlock()
			return 0, err
		}
		avail := c.flushed - c.readOff
		// a reset discards what was not read yet; after a close without the final chunk (cut,
		// aborted handler) the bytes flushed before it are still delivered, then the error
		if c.serverErr != nil && (avail == 0 || !isCleanClose(c.serverErr)) {
			err := c.serverErr
			c.ReadErr = err.Error()
			c.mu.Unlock()
			if !s.dead.Load() {
				s.Yield(fmt.Sprintf("net.read#err c%d", c.ID))
			}
			return 0, err
		}
		if avail > 0 {
			c.mu.Unlock()
			d := 0
			if !s.dead.Load() {
				d = s.IOPoint(fmt.Sprintf("net.read c%d", c.ID), []int{100, c.n.Faults.ShortRead, c.n.Faults.ShortRead}, c)
			}
			c.mu.Lock()
			if c.serverErr != nil && !isCleanClose(c.serverErr) {
				// the connection was reset at this very point: unread data is gone with it
				err := c.serverErr
				c.ReadErr = err.Error()
				c.mu.Unlock()
				return 0, err
			}
			avail = c.flushed - c.readOff
			n := avail
			if n > len(p) {
				n = len(p)
			}
			switch d {
			case 1:
				n = 1
				s.Fault("net.short_read")
			case 2:
				if n > 1 {
					n = 1 + s.Tape.Draw(n-1)
				}
				s.Fault("net.short_read")
			}
			copy(p, c.buf[c.readOff:c.readOff+n])
			c.readOff += n
			c.mu.Unlock()
			s.Progress()
			return n, nil
		}
		if c.serverDone {
			c.ReadToEOF = true
			c.mu.Unlock()
			if !s.dead.Load() {
				s.IOPoint(fmt.Sprintf("net.read#eof c%d", c.ID), nil, c)
			}
			return 0, io.EOF
		}
		ch := c.notify
		c.mu.Unlock()
		if s.dead.Load() {
			return 0, io.ErrUnexpectedEOF
		}
		select {
		case <-ch:
		case <-b.ctx.Done():
		}
		s.Yield(fmt.Sprintf("net.read#woke c%d", c.ID))
	}
}

func (b *respBody) Close() error {
	c := b.c
	c.mu.Lock()
	already := c.BodyClosed
	c.BodyClosed = true
	done := c.serverDone
	c.broadcast()
	c.mu.Unlock()
	if !already && !done {
		c.clientAbort()
	}
	return nil
}

// ConnOf returns the exchange record behind a response body of the simulated network.
func ConnOf(body io.ReadCloser) *Conn {
	if b, ok := body.(*respBody); ok {
		return b.c
	}
	return nil
}

// PathOf is a helper for traces.
func (c *Conn) String() string {
	return fmt.Sprintf("c%d %s %s%s -> %d %s", c.ID, c.Method, c.Host, c.Path, c.Status, strings.TrimSpace(c.Outcome))
}
