// Package sim is the deterministic simulator: one synctest bubble per run, a seeded scheduler that
// releases exactly one parked task at a time, a lock model, simulated HTTP and pipes.
package sim

import (
	"bytes"
	"fmt"
	"hash/fnv"
	"os"
	"os/exec"
	"runtime"
	"runtime/debug"
	"sort"
	"strconv"
	"strings"
	"sync"
	"sync/atomic"
	"testing"
	"testing/synctest"
	"time"

	"trpc.group/trpc-go/trpc-mcp-go/zzsimhook"
)

// SpinLimit is the number of consecutive steps of one library task (no simulated time passing,
// at most 6 distinct sites) after which it is declared livelocked.
var SpinLimit = 3000

// quietMutex is a mutex whose operations the race detector does not see as synchronisation: the
// simulator's own tables must not order the tasks' memory accesses by happens-before, or a fully
// serialised schedule would hide every data race of the code under test (DESIGN.md §4).  The data it
// guards is only touched from //go:norace functions.
type quietMutex struct{ m sync.Mutex }

//go:norace
func (q *quietMutex) Lock() {
	raceDisable()
	q.m.Lock()
	raceEnable()
}

//go:norace
func (q *quietMutex) Unlock() {
	raceDisable()
	q.m.Unlock()
	raceEnable()
}

// Options configure one run.
type Options struct {
	MaxSteps   int
	MaxSimTime time.Duration
	KeepTrace  bool // keep the full event list (replay / samples)
	KeepIO     bool // record the list of I/O points (pilot run of a fault enumeration)
	FaultAt    *FaultSpec
}

// FaultSpec arms one fault at the Index-th I/O point of the run (fault enumeration).
type FaultSpec struct {
	Index int    `json:"index"`
	Kind  string `json:"kind"`
}

// Violation is one oracle verdict.
type Violation struct {
	Sig  string `json:"sig"`
	Msg  string `json:"msg"`
	Step int    `json:"step"`
}

// Event is one scheduler step.
type Event struct {
	Step int    `json:"step"`
	At   int64  `json:"at_us"`
	Task string `json:"task"`
	Op   string `json:"op"`
	Dec  int    `json:"dec,omitempty"`
}

// Result of a run.
type Result struct {
	Steps      int
	SimTime    time.Duration
	Violations []Violation
	Probes     map[string]int
	Faults     map[string]int
	Digest     uint64
	Switches   int // context switches at library yield points
	Capped     string
	Events     []Event
	Notes      []string
	Tape       []uint32
	Overrun    int
	LibEvents  []string // panics, handler aborts, ...
	Plan       interface{}
	IOPoints   []string // pilot runs: description of every I/O point, in order
	FaultFired bool
}

type opKind int

const (
	opYield opKind = iota
	opLock
	opStart
	opPoint
	opSelect
)

type parkOp struct {
	kind    opKind
	site    string
	mu      interface{}
	mode    byte
	weights []int
	n       int
}

type decision struct {
	val  int
	kill bool
}

// Task is a goroutine known to the simulator.
type Task struct {
	Name        string
	gid         int64
	resume      chan decision
	parked      *parkOp
	exited      bool
	lib         bool
	children    map[string]int
	notBefore   time.Duration
	holding     int
	quarantined bool
	prio        int   // PCT priority (0 = not assigned yet)
	idleSeq     int64 // value of exitSeq when an exit-sensitive idle wait began (-1: not sensitive)
}

type lockState struct {
	key     interface{}
	writer  *Task
	readers []*Task // one entry per read-lock held
}

// Sim is one simulated run.
type Sim struct {
	T         *testing.T
	Tape      *Tape
	opts      Options
	mu        quietMutex
	all       []*Task
	locks     []*lockState // (no maps in tables shared between goroutines: map operations carry race-detector hooks of their own)
	probeLog  []string
	faultLog  []string
	procs     []*simProc
	wake      chan struct{}
	last      *Task
	step      int
	start     time.Time
	stick     int
	strategy  string // sticky | pct
	pctChange []int  // PCT: steps at which the running task's priority drops below everybody's
	pctLow    int
	dead      atomic.Bool

	res       *Result
	hash      uint64
	rootDone  bool
	spinTask  *Task
	spinN     int
	spinAt    time.Duration
	spinSites map[string]bool
	exitSeq   int64
	anon      int
	abort     string

	ioCount int
	// OnFault performs the armed fault (set by the scenario); ref is the *Conn or *Pipe of the I/O point.
	OnFault func(kind string, ref interface{})
	// FaultTime is the simulated time at which the armed fault fired (valid when FaultFired()).
	FaultTime time.Duration
	FaultSite string

	// Net is the simulated network of this run.
	Net *Net
	// Vars is free storage for scenarios.
	Vars map[string]interface{}
}

var current atomic.Pointer[Sim]

var lastResult atomic.Pointer[Result]

// LastResult returns the result of the most recent Execute (for callers whose Execute goroutine was
// ended by runtime.Goexit before it could return the value).
func LastResult() *Result { return lastResult.Load() }

var schedSeq atomic.Int64 // incremented before every quiescence wait
var inWait atomic.Bool    // true while the scheduler waits for quiescence
var watchdogOnce sync.Once

// WatchdogInfo describes the run in progress (for the watchdog's report).
var WatchdogInfo atomic.Value

// startWatchdog starts (outside any bubble, so on the real clock) a goroutine that kills the
// process when a scheduler step does not reach quiescence: some goroutine is spinning or blocked
// in a way synctest does not consider durable.  Exit status 3 = "cannot decide", never a verdict.
func startWatchdog() {
	watchdogOnce.Do(func() {
		limit := 240 // half-second ticks: two minutes of wall-clock without a scheduler step
		if v := os.Getenv("VERIF_WATCHDOG_TICKS"); v != "" {
			if n, err := strconv.Atoi(v); err == nil {
				limit = n
			}
		}
		go func() {
			last, same := int64(-1), 0
			for {
				time.Sleep(500 * time.Millisecond)
				cur := schedSeq.Load()
				if inWait.Load() && cur == last {
					same++
				} else {
					same = 0
				}
				last = cur
				if same >= limit {
					info, _ := WatchdogInfo.Load().(string)
					fmt.Fprintf(os.Stderr, "SIM-WATCHDOG: step did not reach quiescence in %ds wall: %s\n", limit/2, info)
					buf := make([]byte, 1<<27)
					n := runtime.Stack(buf, true)
					os.Stderr.Write(buf[:n])
					if p := os.Getenv("VERIF_WATCHDOG_FILE"); p != "" {
						os.WriteFile(p, []byte(info+"\n"+string(buf[:n])), 0o644)
					}
					os.Exit(3)
				}
			}
		}()
	})
}

//go:norace
func goid() int64 {
	var buf [64]byte
	n := runtime.Stack(buf[:], false)
	// "goroutine 123 ["
	b := buf[10:n]
	i := bytes.IndexByte(b, ' ')
	id, _ := strconv.ParseInt(string(b[:i]), 10, 64)
	return id
}

// Execute runs scenario in a fresh bubble under the tape and returns what happened.
func Execute(t *testing.T, tape *Tape, opts Options, scenario func(s *Sim)) (res *Result) {
	if opts.MaxSteps == 0 {
		opts.MaxSteps = 20000
	}
	if opts.MaxSimTime == 0 {
		opts.MaxSimTime = 3 * time.Hour
	}
	startWatchdog()
	s := &Sim{
		T: t, Tape: tape, opts: opts,
		res:  &Result{Probes: map[string]int{}, Faults: map[string]int{}},
		Vars: map[string]interface{}{},
		hash: 1469598103934665603,
	}
	res = s.res
	lastResult.Store(res)
	installHooks()
	current.Store(s)
	defer current.Store(nil)
	defer func() {
		inWait.Store(false)
		if r := recover(); r != nil {
			msg := fmt.Sprint(r)
			if !strings.Contains(msg, "deadlock") {
				res.Notes = append(res.Notes, "harness panic: "+msg+"\n"+string(debug.Stack()))
				res.Capped = "harness-panic"
			}
		}
		for _, n := range s.probeLog {
			res.Probes[n]++
		}
		for _, n := range s.faultLog {
			res.Faults[n]++
		}
		res.Digest = s.hash
		res.Tape = tape.Rec
		res.Overrun = tape.Overrun
	}()
	synctest.Test(t, func(t *testing.T) {
		s.T = t
		s.start = time.Now()
		s.wake = make(chan struct{}, 1)
		s.Net = newNet(s)
		// scheduling strategy of this run (swarm): sticky random walk with one of four stickiness
		// levels (0..3), or PCT-style priorities with 1-3 change points (4..5)
		switch k := tape.Draw(6); {
		case k < 4:
			s.strategy = "sticky"
			s.stick = []int{99, 95, 80, 50}[k]
		default:
			s.strategy = "pct"
			for n := 1 + tape.Draw(3); n > 0; n-- {
				s.pctChange = append(s.pctChange, 1+tape.Draw(600))
			}
		}
		seedRandom(tape)
		s.Go("root", func() {
			defer func() { s.mu.Lock(); s.rootDone = true; s.mu.Unlock() }()
			scenario(s)
		})
		s.schedule()
	})
	return res
}

// StepNow returns the number of scheduler steps taken so far.
//
//go:norace
func (s *Sim) StepNow() int {
	s.mu.Lock()
	defer s.mu.Unlock()
	return s.step
}

// Now is the simulated time since the start of the run.
//
//go:norace
func (s *Sim) Now() time.Duration { return time.Since(s.start) }

//go:norace
func (s *Sim) signalWake() {
	raceDisable()
	select {
	case s.wake <- struct{}{}:
	default:
	}
	raceEnable()
}

//go:norace
func (s *Sim) currentTask() *Task {
	id := goid()
	s.mu.Lock()
	t := s.taskByGid(id)
	if t == nil {
		s.anon++
		t = &Task{Name: fmt.Sprintf("anon#%d", s.anon), gid: id, resume: make(chan decision), children: map[string]int{}}
		s.all = append(s.all, t)
		s.probeLog = append(s.probeLog, "sim.anon_task")
	}
	s.mu.Unlock()
	return t
}

// park blocks the calling task until the scheduler releases it.
//
//go:norace
func (s *Sim) park(t *Task, op *parkOp) int {
	if s.dead.Load() {
		return 0
	}
	s.mu.Lock()
	t.parked = op
	s.mu.Unlock()
	s.signalWake()
	raceDisable()
	d := <-t.resume
	raceEnable()
	if d.kill {
		s.mu.Lock()
		t.exited = true
		s.mu.Unlock()
		runtime.Goexit()
	}
	return d.val
}

// Progress tells the livelock detector that the calling task has just moved data (read or written
// bytes on a simulated connection or pipe): thousands of consecutive steps of one task are normal
// for a multi-megabyte transfer and are not spinning.
//
//go:norace
func (s *Sim) Progress() {
	s.mu.Lock()
	s.spinN = 0
	s.mu.Unlock()
}

// Yield is an interleaving point of the calling task.
//
//go:norace
func (s *Sim) Yield(site string) {
	s.park(s.currentTask(), &parkOp{kind: opYield, site: site})
}

// Point is an interleaving point at which the scheduler also draws a weighted decision
// (index 0 = nothing unusual).
//
//go:norace
func (s *Sim) Point(site string, weights []int) int {
	return s.park(s.currentTask(), &parkOp{kind: opPoint, site: site, weights: weights})
}

// IOPoint is an interleaving point that belongs to simulated I/O (network or pipe).  I/O points are
// numbered in execution order; an armed fault (Options.FaultAt) fires when its index comes up, in
// the task that is about to perform the I/O, before the I/O happens.
//
//go:norace
func (s *Sim) IOPoint(site string, weights []int, ref interface{}) int {
	d := s.park(s.currentTask(), &parkOp{kind: opPoint, site: site, weights: weights})
	s.mu.Lock()
	idx := s.ioCount
	s.ioCount++
	if s.opts.KeepIO {
		s.res.IOPoints = append(s.res.IOPoints, site)
	}
	fire := s.opts.FaultAt != nil && s.opts.FaultAt.Index == idx && !s.res.FaultFired
	if fire {
		s.res.FaultFired = true
		s.FaultTime = s.Now()
		s.FaultSite = site
		s.faultLog = append(s.faultLog, "enum."+s.opts.FaultAt.Kind)
	}
	cb := s.OnFault
	s.mu.Unlock()
	if fire && cb != nil {
		cb(s.opts.FaultAt.Kind, ref)
	}
	return d
}

// FaultFired reports whether the armed fault of this run has fired.
//
//go:norace
func (s *Sim) FaultFired() bool {
	s.mu.Lock()
	defer s.mu.Unlock()
	return s.res.FaultFired
}

// ArmedFault returns the fault armed for this run (nil if none).
//
//go:norace
func (s *Sim) ArmedFault() *FaultSpec { return s.opts.FaultAt }

// Sleep lets simulated time pass for the calling task.
//
//go:norace
func (s *Sim) Sleep(d time.Duration) {
	if d > 0 {
		time.Sleep(d)
	}
	s.Yield("sleep#woke")
}

// Go starts fn as a named task.  The task parks before its first instruction.
//
//go:norace
func (s *Sim) Go(name string, fn func()) *Task {
	return s.spawn(name, false, fn)
}

//go:norace
func (s *Sim) spawn(name string, lib bool, fn func()) *Task {
	t := &Task{Name: name, resume: make(chan decision), children: map[string]int{}, lib: lib}
	s.mu.Lock()
	s.all = append(s.all, t)
	t.parked = &parkOp{kind: opStart, site: "start"}
	s.mu.Unlock()
	started := make(chan struct{})
	go func() {
		id := goid()
		s.mu.Lock()
		t.gid = id
		s.mu.Unlock()
		raceDisable()
		close(started)
		raceEnable()
		defer func() {
			r := recover()
			s.mu.Lock()
			t.exited = true
			t.parked = nil
			s.exitSeq++
			if r != nil {
				st := string(debug.Stack())
				s.res.LibEvents = append(s.res.LibEvents, fmt.Sprintf("panic in %s [task %s]: %v", TopLibFrame(st), t.Name, r))
				s.res.Notes = append(s.res.Notes, fmt.Sprintf("panic in task %s: %v\n%s", t.Name, r, trimStack(st)))
				if s.abort == "" {
					s.abort = "panic"
				}
			}
			s.mu.Unlock()
			s.signalWake()
		}()
		raceDisable()
		d := <-t.resume
		raceEnable()
		if d.kill {
			return
		}
		fn()
	}()
	raceDisable()
	<-started
	raceEnable()
	return t
}

// TopLibFrame returns the innermost function of the code under test found in a stack trace.
func TopLibFrame(st string) string {
	for _, line := range strings.Split(st, "\n") {
		line = strings.TrimSpace(line)
		if strings.HasPrefix(line, "trpc.group/trpc-go/trpc-mcp-go") && !strings.Contains(line, "zzsimhook") {
			if i := strings.LastIndex(line, "("); i > 0 {
				line = line[:i]
			}
			return strings.TrimPrefix(line, "trpc.group/trpc-go/trpc-mcp-go")
		}
	}
	return "?"
}

func trimStack(st string) string {
	lines := strings.Split(st, "\n")
	if len(lines) > 60 {
		lines = lines[:60]
	}
	return strings.Join(lines, "\n")
}

// TaskExited reports whether the task has finished.
//
//go:norace
func (s *Sim) TaskExited(t *Task) bool {
	s.mu.Lock()
	defer s.mu.Unlock()
	return t.exited
}

// WaitTasks parks the caller until all the given tasks have exited or the deadline of simulated
// time passes; it returns the tasks still alive.
//
//go:norace
func (s *Sim) WaitTasks(max time.Duration, tasks ...*Task) []*Task {
	deadline := s.Now() + max
	for {
		var alive []*Task
		s.mu.Lock()
		for _, t := range tasks {
			if !t.exited {
				alive = append(alive, t)
			}
		}
		s.mu.Unlock()
		if len(alive) == 0 || s.Now() >= deadline {
			return alive
		}
		s.idleWait(deadline-s.Now(), true)
	}
}

// idleWait parks the caller with the lowest priority: it is released only when nothing else is
// enabled and either max simulated time has passed or (onExit) some task has exited meanwhile.
//
//go:norace
func (s *Sim) idleWait(max time.Duration, onExit bool) {
	t := s.currentTask()
	s.mu.Lock()
	t.notBefore = s.Now() + max
	t.idleSeq = -1
	if onExit {
		t.idleSeq = s.exitSeq
	}
	s.mu.Unlock()
	s.park(t, &parkOp{kind: opYield, site: "idle"})
}

// Settle lets the system run until nothing is enabled and simulated time has advanced by d.
//
//go:norace
func (s *Sim) Settle(d time.Duration) {
	deadline := s.Now() + d
	for s.Now() < deadline {
		s.idleWait(deadline-s.Now(), false)
	}
}

// Quiesce lets the system run until nothing is enabled (no simulated time needs to pass).
//
//go:norace
func (s *Sim) Quiesce() { s.idleWait(0, false) }

// Violate records an oracle verdict.
//
//go:norace
func (s *Sim) Violate(sig, format string, args ...interface{}) {
	s.mu.Lock()
	defer s.mu.Unlock()
	for _, v := range s.res.Violations {
		if v.Sig == sig {
			return
		}
	}
	s.res.Violations = append(s.res.Violations, Violation{Sig: sig, Msg: fmt.Sprintf(format, args...), Step: s.step})
}

// Probe counts that a branch of interest was reached.
//
//go:norace
func (s *Sim) Probe(name string) {
	s.mu.Lock()
	s.probeLog = append(s.probeLog, name)
	s.mu.Unlock()
}

// Fault counts an injected fault.
//
//go:norace
func (s *Sim) Fault(name string) {
	s.mu.Lock()
	s.faultLog = append(s.faultLog, name)
	s.mu.Unlock()
}

// Note attaches free text to the result (shown in replay files).
//
//go:norace
func (s *Sim) Note(format string, args ...interface{}) {
	s.mu.Lock()
	s.res.Notes = append(s.res.Notes, fmt.Sprintf(format, args...))
	s.mu.Unlock()
}

// LibEvents returns the library-level incidents (panics, aborted handlers) recorded so far.
//
//go:norace
func (s *Sim) LibEvents() []string {
	s.mu.Lock()
	defer s.mu.Unlock()
	return append([]string(nil), s.res.LibEvents...)
}

//go:norace
func (s *Sim) addLibEvent(e string) {
	s.mu.Lock()
	s.res.LibEvents = append(s.res.LibEvents, e)
	s.mu.Unlock()
}

// LiveLibTasks returns the names of library goroutines (started by a `go` statement of the
// library) that have not exited.
//
//go:norace
func (s *Sim) LiveLibTasks() []string {
	s.mu.Lock()
	defer s.mu.Unlock()
	var out []string
	for _, t := range s.all {
		if t.lib && !t.exited {
			out = append(out, t.Name)
		}
	}
	sort.Strings(out)
	return out
}

// LockBlocked returns tasks parked on a lock that is held.
//
//go:norace
func (s *Sim) LockBlocked() []string {
	s.mu.Lock()
	defer s.mu.Unlock()
	var out []string
	for _, t := range s.all {
		if t.parked != nil && t.parked.kind == opLock && !s.lockFree(t, t.parked) {
			out = append(out, t.Name+"@"+t.parked.site)
		}
	}
	return out
}

//go:norace
func (s *Sim) lockFree(t *Task, op *parkOp) bool {
	ls := s.lockOf(op.mu)
	if ls == nil {
		return true
	}
	if op.mode == 'L' {
		return ls.writer == nil && len(ls.readers) == 0
	}
	return ls.writer == nil
}

//go:norace
func (s *Sim) enabled(now time.Duration) (en []*Task, idle []*Task, nextWake time.Duration) {
	nextWake = -1
	for _, t := range s.all {
		if t.exited || t.parked == nil || t.quarantined {
			continue
		}
		if t.parked.kind == opLock && !s.lockFree(t, t.parked) {
			continue
		}
		if t.parked.site == "idle" {
			idle = append(idle, t)
			continue
		}
		if t.notBefore > now {
			if nextWake < 0 || t.notBefore < nextWake {
				nextWake = t.notBefore
			}
			continue
		}
		en = append(en, t)
	}
	sort.Slice(en, func(i, j int) bool { return en[i].Name < en[j].Name })
	sort.Slice(idle, func(i, j int) bool { return idle[i].Name < idle[j].Name })
	return
}

//go:norace
func (s *Sim) record(t *Task, op *parkOp, dec int) {
	h := fnv.New64a()
	h.Write([]byte(t.Name))
	h.Write([]byte{0})
	h.Write([]byte(op.site))
	h.Write([]byte{byte(dec), byte(dec >> 8)})
	s.hash = (s.hash ^ h.Sum64()) * 1099511628211
	if s.opts.KeepTrace {
		s.res.Events = append(s.res.Events, Event{Step: s.step, At: int64(s.Now() / time.Microsecond), Task: t.Name, Op: op.site, Dec: dec})
	}
}

// schedule is the scheduler loop; it runs on the bubble's root goroutine.
//
//go:norace
func (s *Sim) schedule() {
	raceDisable() // the scheduler goroutine never orders anybody (never re-enabled: goroutine-local)
	defer s.teardown()
	for {
		schedSeq.Add(1)
		inWait.Store(true)
		synctest.Wait()
		inWait.Store(false)
		s.mu.Lock()
		if s.rootDone {
			s.mu.Unlock()
			return
		}
		if s.abort != "" {
			s.res.Capped = "aborted:" + s.abort
			s.mu.Unlock()
			return
		}
		now := s.Now()
		if s.step >= s.opts.MaxSteps {
			s.res.Capped = "steps"
			s.mu.Unlock()
			return
		}
		if now >= s.opts.MaxSimTime {
			s.res.Capped = "simtime"
			s.mu.Unlock()
			return
		}
		en, idle, nextWake := s.enabled(now)
		if len(en) == 0 {
			// nothing runnable: let simulated time advance to the next timer (library timers,
			// sleeping harness tasks), or to the earliest notBefore, or release an idle waiter.
			var wait time.Duration = -1
			if nextWake >= 0 {
				wait = nextWake - now
			}
			for _, t := range idle {
				if t.notBefore <= now || (t.idleSeq >= 0 && t.idleSeq != s.exitSeq) {
					// an idle waiter's time has elapsed (or a task exited) and nothing else is enabled
					en = append(en, t)
					break
				}
				if wait < 0 || t.notBefore-now < wait {
					wait = t.notBefore - now
				}
			}
			if len(en) == 0 {
				s.mu.Unlock()
				if wait < 0 {
					wait = s.opts.MaxSimTime - now
				}
				select {
				case <-s.wake:
				default:
				}
				tm := time.NewTimer(wait)
				select {
				case <-s.wake:
				case <-tm.C:
				}
				tm.Stop()
				continue
			}
		}
		// choose
		idx := 0
		if s.strategy == "pct" {
			// PCT: every task gets a random priority when first seen; the enabled task with the highest
			// priority runs; at the change points the task about to run is demoted below everybody.
			for _, t := range en {
				if t.prio == 0 {
					t.prio = 1000 + s.Tape.Draw(1<<20)
				}
			}
			best := 0
			for i, t := range en {
				if t.prio > en[best].prio {
					best = i
				}
			}
			for _, cp := range s.pctChange {
				if cp == s.step+1 && len(en) > 1 {
					s.pctLow++
					en[best].prio = 1000 - s.pctLow
					best = 0
					for i, t := range en {
						if t.prio > en[best].prio {
							best = i
						}
					}
				}
			}
			idx = best
		} else if len(en) > 1 {
			// put the task that ran last first: index 0 = no context switch
			for i, t := range en {
				if t == s.last {
					copy(en[1:i+1], en[0:i])
					en[0] = t
					break
				}
			}
			if s.Tape.Draw(100) >= s.stick {
				idx = 1 + s.Tape.Draw(len(en)-1)
			}
		}
		t := en[idx]
		op := t.parked
		dec := 0
		switch op.kind {
		case opPoint:
			dec = s.Tape.DrawW(op.weights)
		case opSelect:
			dec = s.Tape.Draw(fact(op.n))
		case opLock:
			ls := s.lockOf(op.mu)
			if ls == nil {
				ls = &lockState{key: op.mu}
				s.locks = append(s.locks, ls)
			}
			if op.mode == 'L' {
				ls.writer = t
			} else {
				// Go's RWMutex blocks new readers once a writer waits: a task that read-locks a mutex
				// it already read-holds deadlocks if a writer arrives in between.  The model grants the
				// lock (the writer is parked in the simulator, not in the real mutex) but records it.
				for _, r := range ls.readers {
					if r == t {
						for _, o := range s.all {
							if o != t && !o.exited && o.parked != nil && o.parked.kind == opLock && o.parked.mode == 'L' && o.parked.mu == op.mu {
								s.res.LibEvents = append(s.res.LibEvents, fmt.Sprintf("recursive read lock at %s while a writer waits at %s [task %s]: deadlock with sync.RWMutex", op.site, o.parked.site, t.Name))
							}
						}
					}
				}
				ls.readers = append(ls.readers, t)
			}
			t.holding++
		}
		if t != s.last && s.last != nil && t.lib {
			s.res.Switches++
		}
		// livelock detection: one library task takes step after step, at a handful of sites, while
		// simulated time stands still.  It is quarantined (never scheduled again) and the run goes on,
		// so that the oracles still see what the rest of the system does.
		if t == s.spinTask && now == s.spinAt && t.lib {
			s.spinN++
			if len(s.spinSites) < 16 {
				s.spinSites[op.site] = true
			}
			if s.spinN >= SpinLimit && len(s.spinSites) <= 6 {
				sites := make([]string, 0, len(s.spinSites))
				for k := range s.spinSites {
					sites = append(sites, k)
				}
				sort.Strings(sites)
				t.quarantined = true
				s.res.LibEvents = append(s.res.LibEvents, fmt.Sprintf("livelock in task %s: %d consecutive steps without time passing at %v", t.Name, s.spinN, sites))
				s.spinTask = nil
				s.mu.Unlock()
				continue
			}
		} else {
			s.spinTask, s.spinN, s.spinAt, s.spinSites = t, 1, now, map[string]bool{op.site: true}
		}
		s.last = t
		s.step++
		s.res.Steps = s.step
		s.res.SimTime = now
		s.record(t, op, dec)
		t.parked = nil
		t.notBefore = 0
		s.mu.Unlock()
		t.resume <- decision{val: dec}
	}
}

// teardown ends the run.  Parked tasks are abandoned (they stay durably blocked on their resume
// channel; the bubble is discarded): killing them would run deferred functions that may take real
// mutexes still held by other abandoned tasks.
//
//go:norace
func (s *Sim) teardown() {
	s.dead.Store(true)
	s.Net.abandon()
}

func fact(n int) int {
	if n > 5 {
		return n // rotation only
	}
	f := 1
	for i := 2; i <= n; i++ {
		f *= i
	}
	return f
}

func permFrom(code, n int) []int {
	out := make([]int, n)
	for i := range out {
		out[i] = i
	}
	if n > 5 {
		r := code % n
		return append(out[r:], out[:r]...)
	}
	// Lehmer code: code 0 = identity
	res := make([]int, 0, n)
	f := fact(n)
	for i := n; i >= 1; i-- {
		f /= i
		k := code / f
		code %= f
		res = append(res, out[k])
		out = append(out[:k], out[k+1:]...)
	}
	return res
}

// ---- simulated child processes -------------------------------------------------------------------------

type simProc struct {
	cmd    *exec.Cmd
	exited <-chan struct{}
	err    func() error
}

// RegisterProc makes a simulated child process known: (*exec.Cmd).Wait on cmd returns err() once
// exited is closed.
//
//go:norace
func (s *Sim) RegisterProc(cmd *exec.Cmd, exited <-chan struct{}, err func() error) {
	s.mu.Lock()
	s.procs = append(s.procs, &simProc{cmd: cmd, exited: exited, err: err})
	s.mu.Unlock()
}

//go:norace
func (s *Sim) procOf(cmd *exec.Cmd) *simProc {
	s.mu.Lock()
	defer s.mu.Unlock()
	for _, p := range s.procs {
		if p.cmd == cmd {
			return p
		}
	}
	return nil
}

// ---- hooks ------------------------------------------------------------------------------------

//go:norace
func installHooks() {
	zzsimhook.YieldFn = func(site string) {
		if s := current.Load(); s != nil && !s.dead.Load() {
			s.Yield(site)
		}
	}
	zzsimhook.LockFn = func(m interface{}, mode byte, site string, do func()) {
		if s := current.Load(); s != nil && !s.dead.Load() {
			s.park(s.currentTask(), &parkOp{kind: opLock, site: site, mu: m, mode: mode})
		}
		do()
	}
	zzsimhook.UnlockFn = func(m interface{}, mode byte, site string, do func()) {
		s := current.Load()
		if s != nil {
			s.unlock(m, mode)
		}
		do()
		// an interleaving point right after the release: the window between "unlock" and whatever
		// the code does next with what it read under the lock (check-then-act, stale publication)
		if s != nil && !s.dead.Load() {
			s.Yield(site + "#unlocked")
		}
	}
	zzsimhook.TryLockFn = func(m interface{}, site string, do func() bool) bool {
		s := current.Load()
		if s == nil || s.dead.Load() {
			return do()
		}
		// an interleaving point, then the model decides (the caller is the only released task)
		s.Yield(site + "#trylock")
		t := s.currentTask()
		s.mu.Lock()
		ls := s.lockOf(m)
		free := ls == nil || (ls.writer == nil && len(ls.readers) == 0)
		if free {
			if ls == nil {
				ls = &lockState{key: m}
				s.locks = append(s.locks, ls)
			}
			ls.writer = t
			t.holding++
		}
		s.mu.Unlock()
		if !free {
			return false
		}
		if !do() {
			// cannot happen: the model says the mutex is free
			s.addLibEvent("sim: TryLock failed on a mutex the lock model considers free at " + site)
			s.mu.Lock()
			ls.writer = nil
			t.holding--
			s.mu.Unlock()
			return false
		}
		return true
	}
	zzsimhook.SelectOrderFn = func(site string, n int) []int {
		if s := current.Load(); s != nil && !s.dead.Load() {
			code := s.park(s.currentTask(), &parkOp{kind: opSelect, site: site + "#select", n: n})
			return permFrom(code, n)
		}
		return permFrom(0, n)
	}
	zzsimhook.SelectBlockFn = nil
	zzsimhook.CmdWaitFn = func(cmd *exec.Cmd) (error, bool) {
		s := current.Load()
		if s == nil {
			return nil, false
		}
		p := s.procOf(cmd)
		if p == nil {
			return nil, false
		}
		<-p.exited
		if !s.dead.Load() {
			s.Yield("proc.wait#exited")
		}
		return p.err(), true
	}
	zzsimhook.GoFn = func(site string, f func()) {
		s := current.Load()
		if s == nil || s.dead.Load() {
			go f()
			return
		}
		parent := s.currentTask()
		s.mu.Lock()
		k := parent.children[site]
		parent.children[site] = k + 1
		s.mu.Unlock()
		s.spawn(fmt.Sprintf("%s>%s#%d", parent.Name, site, k), true, f)
	}
}

//go:norace
func (s *Sim) unlock(m interface{}, mode byte) {
	id := goid()
	s.mu.Lock()
	defer s.mu.Unlock()
	ls := s.lockOf(m)
	if ls == nil {
		return
	}
	t := s.taskByGid(id)
	if mode == 'L' {
		ls.writer = nil
	} else {
		idx := -1
		for i, r := range ls.readers {
			if r == t {
				idx = i
				break
			}
		}
		if idx < 0 && len(ls.readers) > 0 {
			idx = 0 // unlocked by another goroutine than the one that locked: legal for RWMutex
		}
		if idx >= 0 {
			ls.readers = append(ls.readers[:idx:idx], ls.readers[idx+1:]...)
		}
	}
	if ls.writer == nil && len(ls.readers) == 0 {
		for i, x := range s.locks {
			if x == ls {
				s.locks = append(s.locks[:i:i], s.locks[i+1:]...)
				break
			}
		}
	}
}

//go:norace
func (s *Sim) lockOf(m interface{}) *lockState {
	for _, ls := range s.locks {
		if ls.key == m {
			return ls
		}
	}
	return nil
}

//go:norace
func (s *Sim) taskByGid(id int64) *Task {
	for i := len(s.all) - 1; i >= 0; i-- {
		if t := s.all[i]; t.gid == id && !t.exited {
			return t
		}
	}
	return nil
}
