package sim

// Tape is the single source of every choice in a run.  In search mode it draws from a PRNG and
// records; in replay mode it reads recorded values (exhausted => 0), so that a recorded tape - or
// any shrunk variant of it - is a complete, exact description of one execution.
type Tape struct {
	s         [4]uint64
	Rec       []uint32
	replay    []uint32
	pos       int
	replaying bool
	Overrun   int // number of draws past the end of a replayed tape
}

func splitmix(x *uint64) uint64 {
	*x += 0x9e3779b97f4a7c15
	z := *x
	z = (z ^ (z >> 30)) * 0xbf58476d1ce4e5b9
	z = (z ^ (z >> 27)) * 0x94d049bb133111eb
	return z ^ (z >> 31)
}

// NewTape returns a search-mode tape seeded from (seed, run).
func NewTape(seed uint64, run uint64) *Tape {
	x := seed*0x9e3779b97f4a7c15 ^ (run+1)*0xd1342543de82ef95
	t := &Tape{}
	for i := range t.s {
		t.s[i] = splitmix(&x)
	}
	return t
}

// ReplayTape returns a tape that replays vals.
func ReplayTape(vals []uint32) *Tape {
	return &Tape{replay: vals, replaying: true}
}

func rotl(x uint64, k uint) uint64 { return (x << k) | (x >> (64 - k)) }

//go:norace
func (t *Tape) next() uint64 {
	s := &t.s
	r := rotl(s[1]*5, 7) * 9
	x := s[1] << 17
	s[2] ^= s[0]
	s[3] ^= s[1]
	s[1] ^= s[2]
	s[0] ^= s[3]
	s[2] ^= x
	s[3] = rotl(s[3], 45)
	return r
}

// Draw returns a value in [0,n). n<=1 draws nothing and returns 0.
//
//go:norace
func (t *Tape) Draw(n int) int {
	if n <= 1 {
		return 0
	}
	var v uint32
	if t.replaying {
		if t.pos < len(t.replay) {
			v = t.replay[t.pos] % uint32(n)
		} else {
			t.Overrun++
		}
		t.pos++
	} else {
		v = uint32(t.next() % uint64(n))
	}
	t.Rec = append(t.Rec, v)
	return int(v)
}

// DrawW draws an index with the given weights; index 0 should be the "nothing unusual" choice so
// that shrinking towards zero removes faults.  The recorded value is the index itself.
//
//go:norace
func (t *Tape) DrawW(weights []int) int {
	if len(weights) <= 1 {
		return 0
	}
	if t.replaying {
		// a replayed (possibly shrunk) value must never select a choice whose weight is zero in
		// this run's configuration: that would inject a fault the run did not enable.
		idx := t.Draw(len(weights))
		if weights[idx] <= 0 {
			t.Rec[len(t.Rec)-1] = 0
			return 0
		}
		return idx
	}
	total := 0
	for _, w := range weights {
		total += w
	}
	if total <= 0 {
		t.Rec = append(t.Rec, 0)
		return 0
	}
	r := int(t.next() % uint64(total))
	idx := 0
	for i, w := range weights {
		if r < w {
			idx = i
			break
		}
		r -= w
	}
	t.Rec = append(t.Rec, uint32(idx))
	return idx
}

// Bool draws true with probability pct/100 (recorded as 1).
//
//go:norace
func (t *Tape) Bool(pct int) bool {
	return t.DrawW([]int{100 - pct, pct}) == 1
}

// Pick draws one of the given ints.
//
//go:norace
func (t *Tape) Pick(vals ...int) int { return vals[t.Draw(len(vals))] }
