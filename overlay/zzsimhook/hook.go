// Package zzsimhook is the seam between the instrumented copy of trpc-mcp-go and the simulator.
// It exists only in the scratch copy written by /verif/cmd/yieldify; it is never part of /repo.
// With every function variable nil the instrumented code behaves like the original.
package zzsimhook

import (
	"os/exec"
	"sort"
	"sync"
)

var (
	// YieldFn parks the calling task at an interleaving point.
	YieldFn func(site string)
	// LockFn / UnlockFn implement the lock model (mode: 'L' lock, 'R' read-lock).
	LockFn   func(m interface{}, mode byte, site string, do func())
	UnlockFn func(m interface{}, mode byte, site string, do func())
	// TryLockFn decides a TryLock through the lock model (do performs the real TryLock).
	TryLockFn func(m interface{}, site string, do func() bool) bool
	// SelectOrderFn returns the order in which the cases of a select are polled.
	SelectOrderFn func(site string, n int) []int
	// SelectBlockFn tells the simulator that the task is about to block in a select.
	SelectBlockFn func(site string)
	// GoFn starts a library goroutine as a named task.
	GoFn func(site string, f func())
)

func Yield(site string) {
	if f := YieldFn; f != nil {
		f(site)
	}
}

func MutexLock(m *sync.Mutex, site string) {
	if f := LockFn; f != nil {
		f(m, 'L', site, m.Lock)
		return
	}
	m.Lock()
}

func MutexUnlock(m *sync.Mutex, site string) {
	if f := UnlockFn; f != nil {
		f(m, 'L', site, m.Unlock)
		return
	}
	m.Unlock()
}

func MutexTryLock(m *sync.Mutex, site string) bool {
	if f := TryLockFn; f != nil {
		return f(m, site, m.TryLock)
	}
	return m.TryLock()
}

func RWTryLock(m *sync.RWMutex, site string) bool {
	if f := TryLockFn; f != nil {
		return f(m, site, m.TryLock)
	}
	return m.TryLock()
}

func RWLock(m *sync.RWMutex, site string) {
	if f := LockFn; f != nil {
		f(m, 'L', site, m.Lock)
		return
	}
	m.Lock()
}

func RWUnlock(m *sync.RWMutex, site string) {
	if f := UnlockFn; f != nil {
		f(m, 'L', site, m.Unlock)
		return
	}
	m.Unlock()
}

func RWRLock(m *sync.RWMutex, site string) {
	if f := LockFn; f != nil {
		f(m, 'R', site, m.RLock)
		return
	}
	m.RLock()
}

func RWRUnlock(m *sync.RWMutex, site string) {
	if f := UnlockFn; f != nil {
		f(m, 'R', site, m.RUnlock)
		return
	}
	m.RUnlock()
}

func SelectOrder(site string, n int) []int {
	if f := SelectOrderFn; f != nil {
		return f(site, n)
	}
	o := make([]int, n)
	for i := range o {
		o[i] = i
	}
	return o
}

func SelectBlock(site string) {
	if f := SelectBlockFn; f != nil {
		f(site)
	}
}

func Go(site string, f func()) {
	if g := GoFn; g != nil {
		g(site, f)
		return
	}
	go f()
}

// CmdWaitFn replaces (*exec.Cmd).Wait for simulated child processes.
var CmdWaitFn func(cmd *exec.Cmd) (error, bool)

// CmdWait waits for a child process: a simulated one if the simulator knows cmd, else the real one.
func CmdWait(cmd *exec.Cmd) error {
	if f := CmdWaitFn; f != nil {
		if err, ok := f(cmd); ok {
			return err
		}
	}
	return cmd.Wait()
}

// Yv yields after an operation whose value is v.
func Yv[T any](site string, v T) T {
	if f := YieldFn; f != nil {
		f(site)
	}
	return v
}

// ZeroOf returns the zero value of a channel's element type (used to declare typed temporaries).
func ZeroOf[T any](c <-chan T) (z T) { return }

type ordered interface {
	~int | ~int8 | ~int16 | ~int32 | ~int64 | ~uint | ~uint8 | ~uint16 | ~uint32 | ~uint64 | ~uintptr |
		~float32 | ~float64 | ~string
}

// SortedKeys returns the keys of m in increasing order.
func SortedKeys[M ~map[K]V, K ordered, V any](m M) []K {
	keys := make([]K, 0, len(m))
	for k := range m {
		keys = append(keys, k)
	}
	sort.Slice(keys, func(i, j int) bool { return keys[i] < keys[j] })
	return keys
}
